"""`np` stand-in for nessai modules while they are executed symbolically.

Concrete arguments are delegated to the real numpy (so an attribute numpy does
not have raises the same AttributeError as in production).  Containers of
symbolic values are real numpy arrays of dtype object; only what numpy cannot
do on object arrays is implemented here.
"""
import contextlib
import logging
import math
import types

import numpy as _np
import z3

from . import engine as _eng
from .values import Sym, SymBool, lift, Unsupported, ratfun, ONE, ZERO, _mul, _is_one, _same, _to_real, rv, frac_add


def _has_sym(x):
    if isinstance(x, (Sym, SymBool)):
        return True
    if isinstance(x, _np.ndarray):
        if x.dtype == object:
            return True  # treat every object array as ours
        if x.dtype.names:
            return any(x.dtype[n] == object for n in x.dtype.names)
        return False
    if isinstance(x, (list, tuple)):
        return any(_has_sym(e) for e in x)
    return False


def _map(f, *args):
    """Elementwise application with broadcasting over object arrays."""
    if not any(isinstance(a, _np.ndarray) and a.ndim > 0 for a in args) and not any(isinstance(a, (list, tuple)) for a in args):
        return f(*[a.item() if isinstance(a, _np.ndarray) else a for a in args])
    arrs = []
    for a in args:
        if isinstance(a, Sym) or isinstance(a, SymBool):
            b = _np.empty((), dtype=object)
            b[()] = a
            arrs.append(b)
        elif isinstance(a, (list, tuple)):
            arrs.append(_obj_array(a))
        else:
            arrs.append(_np.asarray(a))
    bs = _np.broadcast_arrays(*arrs)
    out = _np.empty(bs[0].shape, dtype=object)
    it = _np.nditer(out, flags=["multi_index", "refs_ok"], op_flags=["readonly"])
    if out.size:
        for _ in it:
            idx = it.multi_index
            out[idx] = f(*[b[idx] for b in bs])
    return out


def _obj_array(seq):
    """np.array(seq) forcing dtype=object but keeping the nesting shape."""
    try:
        shape = _np.shape(_np.empty(0) if False else _shape_of(seq))
    except Exception:
        shape = None
    a = _np.empty(_shape_of(seq), dtype=object)
    _fill(a, seq)
    return a


def _shape_of(seq):
    if isinstance(seq, _np.ndarray):
        return seq.shape
    if isinstance(seq, (list, tuple)):
        if len(seq) == 0:
            return (0,)
        inner = _shape_of(seq[0])
        return (len(seq),) + inner
    return ()


def _fill(a, seq):
    if a.ndim == 0:
        a[()] = seq
        return
    for i, e in enumerate(seq):
        if a.ndim == 1:
            a[i] = e.item() if isinstance(e, _np.ndarray) and e.ndim == 0 else e
        else:
            _fill(a[i], e)


def _tobool_array(a):
    """Object array of bool/SymBool -> concrete bool array (forks)."""
    if isinstance(a, _np.ndarray):
        out = _np.empty(a.shape, dtype=bool)
        flat_o = out.reshape(-1)
        for i, e in enumerate(a.reshape(-1)):
            flat_o[i] = bool(e)
        return out
    return a


HOOKS = {}


def _exact_log(x, shift):
    """log / log1p of a concrete finite number as an exact log-kind value."""
    if isinstance(x, (bool, _np.bool_)) or not isinstance(x, (int, float, _np.integer, _np.floating)):
        return None
    f = float(x)
    if not math.isfinite(f) or f + shift <= 0 or f + shift == 1.0:
        return None
    from fractions import Fraction
    return Sym(ZERO, rv(Fraction(f) + shift), ONE)


def _un(name, sym_method, conc):
    def one(x):
        h = HOOKS.get(name)
        if h is not None:
            h(x)
        if isinstance(x, Sym):
            return getattr(x, sym_method)()
        if isinstance(x, SymBool):
            return getattr(lift(x), sym_method)()
        if name == "log" and _eng.CURRENT is not None and getattr(_eng.CURRENT, "mode", "") == "sym":
            r = _exact_log(x, 0)
            if r is not None:
                return r
        if name == "log1p" and _eng.CURRENT is not None and getattr(_eng.CURRENT, "mode", "") == "sym":
            r = _exact_log(x, 1)
            if r is not None:
                return r
        with _np.errstate(all="ignore"):
            return conc(x)

    def f(x, *a, **k):
        k.pop("dtype", None)
        if not _has_sym(x):
            if name in ("log", "log1p") and not isinstance(x, _np.ndarray) and not a and not k:
                return one(x)
            if HOOKS.get(name) is not None:
                _map(HOOKS[name], x) if isinstance(x, _np.ndarray) else HOOKS[name](x)
            return getattr(_np, name)(x, *a, **k)
        return _map(one, x)
    f.__name__ = name
    return f


def _logaddexp1(a, b):
    la, lb = lift(a), lift(b)
    if isinstance(la, float) or isinstance(lb, float):
        # non-finite concrete operand
        if isinstance(la, float) and isinstance(lb, float):
            return float(_np.logaddexp(la, lb))
        f, s = (la, lb) if isinstance(la, float) else (lb, la)
        if math.isnan(f):
            return f
        if f == math.inf:
            return f
        return s  # -inf is the identity
    A1, B1 = la.value_pair()
    A2, B2 = lb.value_pair()
    N, D = frac_add(A1, B1, A2, B2)
    return Sym(ZERO, N, D)


def logaddexp(a, b, *args, **kw):
    if not _has_sym(a) and not _has_sym(b):
        return _np.logaddexp(a, b, *args, **kw)
    return _map(_logaddexp1, a, b)


def _lse_list(vals, weights=None):
    """log sum_i w_i exp(v_i) as a log-kind Sym."""
    N, D = None, None
    anysym = False
    for i, v in enumerate(vals):
        w = None if weights is None else weights[i]
        lv = lift(v)
        if isinstance(lv, float):
            if lv == -math.inf:
                continue
            if math.isnan(lv):
                return lv
            raise Unsupported("+inf inside logsumexp")
        A, B = lv.value_pair()
        if w is not None:
            lw = lift(w)
            if isinstance(lw, float):
                raise Unsupported("non-finite weight in logsumexp")
            wn, wd = ratfun(lw.real())
            A, B = _mul(A, wn), _mul(B, wd)
        if N is None:
            N, D = A, B
        else:
            N, D = frac_add(N, D, A, B)
    if N is None:
        return -math.inf
    return Sym(ZERO, N, D)


def logsumexp(a, axis=None, b=None, keepdims=False, return_sign=False):
    from scipy.special import logsumexp as real
    if not _has_sym(a) and not _has_sym(b):
        return real(a, axis=axis, b=b, keepdims=keepdims, return_sign=return_sign)
    if return_sign or keepdims:
        raise Unsupported("logsumexp options")
    a = a if isinstance(a, _np.ndarray) else _obj_array(list(a))
    if b is not None:
        b = _np.broadcast_to(_np.asarray(b) if not isinstance(b, _np.ndarray) else b, a.shape)
    if axis is None:
        return _lse_list(list(a.reshape(-1)), None if b is None else list(b.reshape(-1)))
    if a.ndim == 1:
        return _lse_list(list(a), None if b is None else list(b))
    if a.ndim == 2:
        if axis in (1, -1):
            out = _np.empty(a.shape[0], dtype=object)
            for i in range(a.shape[0]):
                out[i] = _lse_list(list(a[i]), None if b is None else list(b[i]))
            return out
        if axis == 0:
            out = _np.empty(a.shape[1], dtype=object)
            for j in range(a.shape[1]):
                out[j] = _lse_list(list(a[:, j]), None if b is None else list(b[:, j]))
            return out
    raise Unsupported("logsumexp axis/shape")


def _isfinite1(x):
    if isinstance(x, Sym):
        if x.num is None:
            return True
        return SymBool(x.num > 0)
    if isinstance(x, SymBool):
        return True
    return bool(_np.isfinite(x))


def _isnan1(x):
    if isinstance(x, (Sym, SymBool)):
        return False
    return bool(_np.isnan(x))


def _isinf1(x):
    if isinstance(x, Sym):
        if x.num is None:
            return False
        return SymBool(x.num == 0)
    if isinstance(x, SymBool):
        return False
    return bool(_np.isinf(x))


def _isposinf1(x):
    if isinstance(x, (Sym, SymBool)):
        return False
    return bool(_np.isposinf(x))


def _isneginf1(x):
    if isinstance(x, Sym):
        return _isinf1(x)
    if isinstance(x, SymBool):
        return False
    return bool(_np.isneginf(x))


def _pred(name, one):
    def f(x, *a, **k):
        if not _has_sym(x):
            return getattr(_np, name)(x, *a, **k)
        r = _map(one, x)
        if isinstance(r, _np.ndarray):
            return _tobool_array(r)
        return r
    f.__name__ = name
    return f


_FLOATY = (None, float, _np.float64, "f8", "float", "float64", "d", _np.longdouble, _np.float32)


def _dt(dtype):
    """The module-level `float` shim must reach real numpy as the builtin float."""
    return float if dtype is symfloat else dtype


def _is_floaty(dtype):
    try:
        if dtype is None or dtype is symfloat:
            return True
        if isinstance(dtype, (list,)):
            return False
        dt = _np.dtype(dtype)
        return dt.kind == "f"
    except Exception:
        return False


class SymNumpy(types.ModuleType):
    """The object bound to the name `np` in patched modules."""

    def __init__(self):
        super().__init__("symnp")

    def __getattr__(self, name):
        return getattr(_np, name)

    # constants that must stay identical
    inf = _np.inf
    nan = _np.nan
    e = _np.e

    @property
    def pi(self):
        c = _eng.CURRENT
        if c is not None and getattr(c, "mode", "") == "sym" and c.aux.get("_symbolic_pi"):
            return Sym(sym_pi())
        return _np.pi
    newaxis = _np.newaxis

    exp = staticmethod(_un("exp", "exp", _np.exp))
    log = staticmethod(_un("log", "log", _np.log))
    log1p = staticmethod(_un("log1p", "log1p", _np.log1p))
    log2 = staticmethod(_un("log2", "log2", _np.log2))
    expm1 = staticmethod(_un("expm1", "expm1", _np.expm1))
    sqrt = staticmethod(_un("sqrt", "sqrt", _np.sqrt))
    cbrt = staticmethod(_un("cbrt", "cbrt", _np.cbrt))
    sin = staticmethod(_un("sin", "sin", _np.sin))
    cos = staticmethod(_un("cos", "cos", _np.cos))
    abs = staticmethod(_un("abs", "__abs__", _np.abs))
    absolute = abs
    fabs = abs
    negative = staticmethod(_un("negative", "__neg__", _np.negative))
    logaddexp = staticmethod(logaddexp)
    isfinite = staticmethod(_pred("isfinite", _isfinite1))
    isnan = staticmethod(_pred("isnan", _isnan1))
    isinf = staticmethod(_pred("isinf", _isinf1))
    isposinf = staticmethod(_pred("isposinf", _isposinf1))
    isneginf = staticmethod(_pred("isneginf", _isneginf1))

    @staticmethod
    def float64(x=0.0):
        if isinstance(x, Sym):
            return x
        return _np.float64(x)

    @staticmethod
    def array(obj, dtype=None, *a, **k):
        try:
            structured = dtype is not None and dtype is not symfloat and _np.dtype(dtype).names is not None
        except TypeError:
            structured = False
        if structured:
            return _np.array(obj, dtype, *a, **k)   # list of tuples into a structured dtype: numpy stores the objects
        if _has_sym(obj):
            if isinstance(obj, _np.ndarray):
                return obj.copy() if k.get("copy", True) else obj
            if isinstance(obj, (Sym, SymBool)):
                r = _np.empty((), dtype=object)
                r[()] = obj
                return r
            return _obj_array(obj)
        return _np.array(obj, _dt(dtype), *a, **k)

    @staticmethod
    def asarray(obj, dtype=None, *a, **k):
        if _has_sym(obj):
            if isinstance(obj, _np.ndarray):
                return obj
            return SymNumpy.array(obj)
        return _np.asarray(obj, _dt(dtype), *a, **k)

    @staticmethod
    def atleast_1d(x):
        if isinstance(x, (Sym, SymBool)):
            r = _np.empty(1, dtype=object)
            r[0] = x
            return r
        return _np.atleast_1d(x)

    @staticmethod
    def zeros(shape, dtype=None, *a, **k):
        if _is_floaty(dtype):
            r = _np.empty(shape, dtype=object)
            r[...] = Sym(ZERO)
            return r
        return _np.zeros(shape, _dt(dtype), *a, **k)

    @staticmethod
    def ones(shape, dtype=None, *a, **k):
        if _is_floaty(dtype):
            r = _np.empty(shape, dtype=object)
            r[...] = Sym(ONE)
            return r
        return _np.ones(shape, _dt(dtype), *a, **k)

    @staticmethod
    def empty(shape, dtype=None, *a, **k):
        if _is_floaty(dtype):
            r = _np.empty(shape, dtype=object)
            r[...] = _np.nan
            return r
        return _np.empty(shape, _dt(dtype), *a, **k)

    @staticmethod
    def full(shape, fill_value, dtype=None, *a, **k):
        if _is_floaty(dtype) and not isinstance(fill_value, (bool, _np.bool_, int, _np.integer)) or isinstance(fill_value, Sym):
            r = _np.empty(shape, dtype=object)
            r[...] = fill_value
            return r
        return _np.full(shape, fill_value, dtype, *a, **k)

    @staticmethod
    def zeros_like(x, dtype=None, *a, **k):
        if isinstance(x, _np.ndarray) and x.dtype == object and dtype is None:
            r = _np.empty(x.shape, dtype=object)
            r[...] = Sym(ZERO)
            return r
        return _np.zeros_like(x, dtype, *a, **k)

    @staticmethod
    def ones_like(x, dtype=None, *a, **k):
        if isinstance(x, _np.ndarray) and x.dtype == object and dtype is None:
            r = _np.empty(x.shape, dtype=object)
            r[...] = Sym(ONE)
            return r
        return _np.ones_like(x, dtype, *a, **k)

    @staticmethod
    def arange(*a, **k):
        want = k.get("dtype")
        if "dtype" in k:
            k = dict(k, dtype=_dt(want))
        r = _np.arange(*a, **k)
        if want is not None and _is_floaty(want):
            o = _np.empty(r.shape, dtype=object)
            for i, v in enumerate(r):
                o[i] = Sym(rv(float(v)))
            return o
        return r

    @staticmethod
    def cumsum(x, *a, **k):
        h = HOOKS.get("cumsum")
        if h is not None:
            h(x)
        return _np.cumsum(x, *a, **k)

    @staticmethod
    def any(x, *a, **k):
        if isinstance(x, SymBool):
            return x
        if isinstance(x, _np.ndarray) and x.dtype == object:
            x = _tobool_array(x)
        return _np.any(x, *a, **k)

    @staticmethod
    def all(x, *a, **k):
        if isinstance(x, SymBool):
            return x
        if isinstance(x, _np.ndarray) and x.dtype == object:
            x = _tobool_array(x)
        elif isinstance(x, (list, tuple)) and _has_sym(x):
            x = [_tobool_array(e) if isinstance(e, _np.ndarray) else bool(e) for e in x]
        return _np.all(x, *a, **k)

    @staticmethod
    def where(cond, *args):
        if isinstance(cond, SymBool):
            cond = bool(cond)
        elif isinstance(cond, _np.ndarray) and cond.dtype == object:
            cond = _tobool_array(cond)
        if args and any(_has_sym(a) for a in args):
            x, y = args
            return _map(lambda c, p, q: p if c else q, cond, x, y)
        return _np.where(cond, *args)

    @staticmethod
    def sign(x):
        def one(v):
            if isinstance(v, Sym):
                t = v.real()
                return Sym(z3.If(t > 0, ONE, z3.If(t < 0, -ONE, ZERO)))
            return _np.sign(v)
        if not _has_sym(x):
            return _np.sign(x)
        return _map(one, x)

    @staticmethod
    def maximum(a, b):
        if not _has_sym(a) and not _has_sym(b):
            return _np.maximum(a, b)
        return _map(smax, a, b)

    @staticmethod
    def minimum(a, b):
        if not _has_sym(a) and not _has_sym(b):
            return _np.minimum(a, b)
        return _map(smin, a, b)

    @staticmethod
    def clip(x, lo, hi, *a, **k):
        if not (_has_sym(x) or _has_sym(lo) or _has_sym(hi)):
            return _np.clip(x, lo, hi, *a, **k)
        return _map(lambda v, l, h: smin(smax(v, l), h), x, lo, hi)

    @staticmethod
    def errstate(**k):
        return _np.errstate(**k)

    @staticmethod
    def arctan2(y, x):
        if not (_has_sym(y) or _has_sym(x)):
            return _np.arctan2(y, x)
        return _map(_arctan2_1, y, x)

    @staticmethod
    def divide(a, b, *args, **k):
        if not (_has_sym(a) or _has_sym(b)):
            return _np.divide(a, b, *args, **k)
        return _map(lambda p, q: p / q, a, b)

    @staticmethod
    def mod(a, b):
        if not (_has_sym(a) or _has_sym(b)):
            return _np.mod(a, b)
        return _map(lambda p, q: p % q, a, b)

    @property
    def random(self):
        return symrandom

    @staticmethod
    def isclose(a, b, rtol=1e-05, atol=1e-08, equal_nan=False):
        if not (_has_sym(a) or _has_sym(b)):
            return _np.isclose(a, b, rtol=rtol, atol=atol, equal_nan=equal_nan)

        def one(x, y):
            lx, ly = lift(x), lift(y)
            if isinstance(lx, float) or isinstance(ly, float):
                if isinstance(lx, float) and isinstance(ly, float):
                    return bool(_np.isclose(lx, ly, rtol=rtol, atol=atol, equal_nan=equal_nan))
                return False
            d = x - y
            return bool(abs(d) <= atol + rtol * abs(y))
        r = _map(one, a, b)
        return _tobool_array(r) if isinstance(r, _np.ndarray) else r

    @staticmethod
    def allclose(a, b, rtol=1e-05, atol=1e-08, equal_nan=False):
        return bool(_np.all(SymNumpy.isclose(a, b, rtol=rtol, atol=atol, equal_nan=equal_nan)))

    @staticmethod
    def array_equal(a, b, *args, **k):
        if not (_has_sym(a) or _has_sym(b)):
            return _np.array_equal(a, b, *args, **k)
        a, b = _np.asarray(a), _np.asarray(b)
        if a.shape != b.shape:
            return False
        return bool(_np.all(_tobool_array(_map(lambda x, y: x == y, a, b))))


def sym_pi():
    """pi as a symbolic constant with rational bounds (used when the harness enables it)."""
    ctx = _eng.CURRENT
    p = ctx.aux.get("_pi")
    if p is None:
        p = z3.Real("pi")
        ctx.aux["_pi"] = p
        ctx.add_hyp(z3.And(p > z3.RealVal("314159/100000"), p < z3.RealVal("314160/100000")))
    return p


def _arctan2_1(y, x):
    """phi = arctan2(y, x) as a fresh value with ground axioms (and its differential)."""
    ctx = _eng.CURRENT
    ly, lx = lift(y), lift(x)
    if isinstance(ly, float) or isinstance(lx, float):
        raise Unsupported("arctan2 of non-finite values")
    yt, xt = ly.nod().real(), lx.nod().real()
    key = ("arctan2", yt.get_id(), xt.get_id())
    got = ctx.aux.get(key)
    if got is None:
        k = len(ctx.aux)
        phi = z3.Real(f"atan2!{k}")
        rho = z3.Real(f"rho!{k}")
        known = [val for kk, val in ctx.aux.items() if isinstance(kk, tuple) and kk and kk[0] == "trig"]
        ctx.keep.extend([yt, xt])
        PI_Q = sym_pi()
        Sp, Cp = ctx.trig("sin", phi), ctx.trig("cos", phi)
        ctx.add_hyp(z3.And(phi > -PI_Q, phi <= PI_Q))
        ctx.add_hyp(z3.And(rho >= 0, rho * rho == xt * xt + yt * yt))
        ctx.add_hyp(z3.And(rho * Cp == xt, rho * Sp == yt))
        ctx.add_hyp(z3.Implies(z3.And(xt == 0, yt == 0), phi == 0))
        # (cos a, sin a) = (cos b, sin b)  =>  a - b in 2 pi Z, for every trig argument b seen so far
        for (b, Sb, Cb) in known:
            ctx.add_hyp(z3.Implies(z3.And(Cp == Cb, Sp == Sb, b > -4 * PI_Q, b < 4 * PI_Q),
                                   z3.Or(*[phi - b == 2 * j * PI_Q for j in (-2, -1, 0, 1, 2)])))
        ctx.aux[key] = (phi, rho)
        got = (phi, rho)
    phi, rho = got
    r = Sym(phi)
    if ly.d is not None or lx.d is not None:
        from .values import _dz
        x0, y0 = lx.nod(), ly.nod()
        r.d = (x0 * _dz(ly) - y0 * _dz(lx)) / (x0 * x0 + y0 * y0)
    return r


def smax(a, b):
    """ite-based max (no fork) for plain values; falls back to comparison."""
    la, lb = lift(a), lift(b)
    if isinstance(la, Sym) and isinstance(lb, Sym) and la.plain and lb.plain and la.d is None and lb.d is None:
        if la.is_int and lb.is_int:
            return Sym(z3.If(la.p >= lb.p, la.p, lb.p), is_int=True)
        return Sym(z3.If(la.real() >= lb.real(), la.real(), lb.real()))
    return a if a >= b else b


def smin(a, b):
    la, lb = lift(a), lift(b)
    if isinstance(la, Sym) and isinstance(lb, Sym) and la.plain and lb.plain and la.d is None and lb.d is None:
        if la.is_int and lb.is_int:
            return Sym(z3.If(la.p <= lb.p, la.p, lb.p), is_int=True)
        return Sym(z3.If(la.real() <= lb.real(), la.real(), lb.real()))
    return a if a <= b else b


class SymRandom:
    """Nondeterministic stand-in for np.random inside patched modules.

    rand/uniform return fresh symbolic reals constrained to the documented
    half-open interval; choice / permutation are arbitrary (forked) unless a
    handler is installed.  Every call is recorded in `calls`.
    """

    def __init__(self):
        self.calls = []
        self.handlers = {}

    def reset(self):
        self.calls = []
        self.handlers = {}

    def __getattr__(self, name):
        def f(*a, **k):
            self.calls.append((name, a, k))
            h = self.handlers.get(name)
            if h is not None:
                return h(*a, **k)
            raise Unsupported(f"np.random.{name} has no nondeterministic model")
        return f

    def _fresh_unit(self, ctx):
        u = ctx.real(ctx.fresh("u"), lo=0)
        ctx.assume(u < 1)
        return u

    def rand(self, *shape):
        self.calls.append(("rand", shape, {}))
        h = self.handlers.get("rand")
        if h is not None:
            return h(*shape)
        ctx = _eng.CURRENT
        if not shape:
            return self._fresh_unit(ctx)
        out = _np.empty(shape, dtype=object)
        flat = out.reshape(-1)
        for i in range(flat.size):
            flat[i] = self._fresh_unit(ctx)
        return out

    def randn(self, *shape):
        """Standard normal draws: arbitrary reals (only the support matters here)."""
        self.calls.append(("randn", shape, {}))
        h = self.handlers.get("randn")
        if h is not None:
            return h(*shape)
        ctx = _eng.CURRENT
        if not shape:
            return ctx.real(ctx.fresh("g"), -6, 6)
        out = _np.empty(shape, dtype=object)
        flat = out.reshape(-1)
        for i in range(flat.size):
            flat[i] = ctx.real(ctx.fresh("g"), -6, 6)
        return out

    def random(self, size=None):
        if size is None:
            return self.rand()
        return self.rand(*((size,) if isinstance(size, int) else tuple(size)))

    def uniform(self, low=0.0, high=1.0, size=None):
        self.calls.append(("uniform", (low, high, size), {}))
        h = self.handlers.get("uniform")
        if h is not None:
            return h(low, high, size)
        ctx = _eng.CURRENT

        def one(lo, hi):
            u = ctx.real(ctx.fresh("u"))
            ctx.assume((u >= lo) & (u < hi))
            return u
        if size is None and not isinstance(low, _np.ndarray) and not isinstance(high, _np.ndarray):
            return one(low, high)
        shape = size if size is not None else _np.broadcast(low, high).shape
        shape = (shape,) if isinstance(shape, int) else tuple(shape)
        out = _np.empty(shape, dtype=object)
        lo_b = _np.broadcast_to(_np.asarray(low, dtype=object), shape)
        hi_b = _np.broadcast_to(_np.asarray(high, dtype=object), shape)
        for idx in _np.ndindex(*shape):
            out[idx] = one(lo_b[idx], hi_b[idx])
        return out

    def permutation(self, n):
        self.calls.append(("permutation", (n,), {}))
        h = self.handlers.get("permutation")
        if h is not None:
            return h(n)
        ctx = _eng.CURRENT
        items = list(range(n)) if isinstance(n, (int, _np.integer)) else list(n)
        out = []
        while items:
            out.append(items.pop(ctx.choice("perm", len(items))))
        return _np.array(out) if isinstance(n, (int, _np.integer)) else _np.array(out, dtype=getattr(n, "dtype", None))

    def choice(self, a, size=None, replace=True, p=None):
        self.calls.append(("choice", (a,), dict(size=size, replace=replace, p=p)))
        h = self.handlers.get("choice")
        if h is not None:
            return h(a, size=size, replace=replace, p=p)
        ctx = _eng.CURRENT
        n = int(a) if isinstance(a, (int, _np.integer)) else len(a)
        k = 1 if size is None else int(size)
        pool = list(range(n))
        out = []
        for _ in range(k):
            j = ctx.choice("choice", len(pool))
            out.append(pool[j] if replace else pool.pop(j))
        idx = _np.array(out, dtype=int)
        if size is None:
            idx = idx[0]
        return idx if isinstance(a, (int, _np.integer)) else _np.asarray(a)[idx]

    def seed(self, *a, **k):
        self.calls.append(("seed", a, k))


class SymRfn(types.ModuleType):
    """numpy.lib.recfunctions for structured arrays with object fields."""

    def __init__(self):
        super().__init__("symrfn")

    def __getattr__(self, name):
        import numpy.lib.recfunctions as rfn
        return getattr(rfn, name)

    @staticmethod
    def structured_to_unstructured(arr, dtype=None, copy=False, casting="unsafe"):
        import numpy.lib.recfunctions as rfn
        if arr.dtype.names and any(arr.dtype[n] == object for n in arr.dtype.names):
            # documented semantics: the fields, in order, become the last axis
            out = _np.empty(arr.shape + (len(arr.dtype.names),), dtype=object)
            for j, n in enumerate(arr.dtype.names):
                out[..., j] = arr[n]
            return out
        return rfn.structured_to_unstructured(arr, dtype=dtype, copy=copy, casting=casting)


symrfn = SymRfn()
symrandom = SymRandom()
symnp = SymNumpy()


class RecordingNumpy(types.ModuleType):
    """Concrete-mode proxy for `np`: real numpy, but selected calls are reported to hooks."""

    def __init__(self, hooks):
        super().__init__("recnp")
        self._hooks = hooks

    def __getattr__(self, name):
        return getattr(_np, name)

    def exp(self, x, *a, **k):
        h = self._hooks.get("exp")
        if h is not None:
            for v in _np.atleast_1d(_np.asarray(x, dtype=float)).ravel():
                h(float(v))
        return _np.exp(x, *a, **k)

    def cumsum(self, x, *a, **k):
        h = self._hooks.get("cumsum")
        if h is not None:
            h(_np.array(x, dtype=float))
        return _np.cumsum(x, *a, **k)


@contextlib.contextmanager
def recording(modules, hooks):
    rec = RecordingNumpy(hooks)
    saved = [(m, m.np) for m in modules]
    try:
        for m in modules:
            m.np = rec
        yield
    finally:
        for m, old in saved:
            m.np = old


class _NullLogger:
    def __getattr__(self, name):
        def f(*a, **k):
            return None
        return f

    def isEnabledFor(self, *a):
        return False

    def getEffectiveLevel(self):
        return logging.CRITICAL


null_logger = _NullLogger()


@contextlib.contextmanager
def patched(modules, extra=None):
    """Rebind np / logsumexp / logger in the given modules to the shims."""
    saved = []
    try:
        for m in modules:
            for name, repl in (("np", symnp), ("logsumexp", logsumexp), ("logger", null_logger), ("float", symfloat), ("rfn", symrfn)):
                if name in m.__dict__ or name == "float":
                    saved.append((m, name, m.__dict__.get(name, _MISSING)))
                    setattr(m, name, repl)
            for name, repl in (extra or {}).get(m.__name__, {}).items():
                saved.append((m, name, m.__dict__.get(name, _MISSING)))
                setattr(m, name, repl)
        yield
    finally:
        for m, name, old in reversed(saved):
            if old is _MISSING:
                delattr(m, name)
            else:
                setattr(m, name, old)


_MISSING = object()


class _SymFloatMeta(type):
    def __instancecheck__(cls, inst):
        return isinstance(inst, float)

    def __subclasscheck__(cls, sub):
        return issubclass(sub, float)


class symfloat(float, metaclass=_SymFloatMeta):
    """`float` as seen by patched modules: symbolic values pass through unchanged;
    isinstance(x, float) keeps its meaning."""

    def __new__(cls, x=0.0):
        if isinstance(x, Sym):
            return x
        if isinstance(x, _np.ndarray) and x.dtype == object and x.ndim == 0 and isinstance(x.item(), Sym):
            return x.item()
        return float(x)


@contextlib.contextmanager
def patched_extra_only(modules, extra):
    saved = []
    try:
        for m in modules:
            for name, repl in extra.get(m.__name__, {}).items():
                saved.append((m, name, m.__dict__.get(name, _MISSING)))
                setattr(m, name, repl)
        yield
    finally:
        for m, name, old in reversed(saved):
            if old is _MISSING:
                delattr(m, name)
            else:
                setattr(m, name, old)


@contextlib.contextmanager
def object_livepoints():
    """Make nessai build structured arrays with object fields (symbolic)."""
    from nessai import config
    lp = config.livepoints
    old = (lp.default_float_dtype, lp.logl_dtype)
    lp.default_float_dtype = "O"
    lp.logl_dtype = "O"
    lp.reset_properties()
    try:
        yield
    finally:
        lp.default_float_dtype, lp.logl_dtype = old
        lp.reset_properties()
