"""Symbolic scalar values for the sx engine.

A value is  v = p + log(num/den)  where p, num, den are z3 real terms
(num is None for a "plain" value, i.e. E = 1).  num = 0 encodes -inf.
Optionally a value carries a tangent `d` (dual numbers, used for Jacobians).

The classes overload Python operators so that the *real* nessai code runs on
them unmodified; numpy object-dtype arrays are used as containers, numpy calls
`.exp()`, `.log()`, `.sqrt()` ... on object elements, and anything numpy has
no object loop for is provided by sx.symnp.

`Sym.__bool__`/`SymBool.__bool__` ask the engine to fork.
"""
import math
from fractions import Fraction

import numpy as np
import z3

from . import engine as _eng


class Unsupported(Exception):
    """Raised when the real code needs an operation the domain cannot model."""


def _ctx():
    c = _eng.CURRENT
    if c is None:
        raise RuntimeError("symbolic value used outside of an engine run")
    return c


# ---------------------------------------------------------------------------
# helpers to build z3 numerals from python numbers exactly
# ---------------------------------------------------------------------------

def _is_number(x):
    return isinstance(x, (int, float, Fraction, np.integer, np.floating)) and not isinstance(x, bool) or isinstance(x, (bool, np.bool_))


def rv(x):
    """Exact z3 real numeral for a finite python/numpy number."""
    if isinstance(x, (bool, np.bool_)):
        return z3.RealVal(int(x))
    if isinstance(x, (int, np.integer)):
        return z3.RealVal(int(x))
    if isinstance(x, Fraction):
        return z3.RealVal(f"{x.numerator}/{x.denominator}")
    x = float(x)
    if not math.isfinite(x):
        raise Unsupported(f"non-finite constant {x} in real term")
    n, d = x.as_integer_ratio()
    return z3.RealVal(f"{n}/{d}")


def _to_real(t):
    if z3.is_int(t):
        if z3.is_int_value(t):
            return z3.RealVal(t.as_long())
        return z3.ToReal(t)
    return t


ONE = z3.RealVal(1)
ZERO = z3.RealVal(0)


def _is_zero(t):
    return z3.is_rational_value(t) and t.numerator_as_long() == 0 or (z3.is_int_value(t) and t.as_long() == 0)


def _is_one(t):
    return (z3.is_rational_value(t) and t.numerator_as_long() == 1 and t.denominator_as_long() == 1) or (z3.is_int_value(t) and t.as_long() == 1)


def _mul(a, b):
    if _is_one(a):
        return b
    if _is_one(b):
        return a
    return a * b


def _add(a, b):
    if _is_zero(a):
        return b
    if _is_zero(b):
        return a
    return a + b


# ---------------------------------------------------------------------------
# factored denominators: keep common denominators small (lcm, not product)
# ---------------------------------------------------------------------------

def _numeral(t):
    if z3.is_int_value(t):
        return Fraction(t.as_long())
    if z3.is_rational_value(t):
        return Fraction(t.numerator_as_long(), t.denominator_as_long())
    return None


def _factors(t, coeff_out, out):
    """Flatten a product into {id: [term, multiplicity]}; numerals go to coeff_out[0]."""
    c = _numeral(t)
    if c is not None:
        coeff_out[0] *= c
        return
    if z3.is_app(t) and t.decl().kind() == z3.Z3_OP_MUL:
        for ch in t.children():
            _factors(ch, coeff_out, out)
        return
    e = out.setdefault(t.get_id(), [t, 0])
    e[1] += 1


def _prod(fs, coeff=Fraction(1)):
    r = ONE if coeff == 1 else rv(coeff)
    for term, k in fs:
        for _ in range(k):
            r = _mul(r, term)
    return r


def lcm_den(d1, d2):
    """(L, m1, m2) with L = lcm(d1, d2) as products of syntactic factors, L = d1*m1 = d2*m2."""
    if _same(d1, d2):
        return d1, ONE, ONE
    if _is_one(d1):
        return d2, d2, ONE
    if _is_one(d2):
        return d1, ONE, d1
    c1, c2 = [Fraction(1)], [Fraction(1)]
    f1, f2 = {}, {}
    _factors(d1, c1, f1)
    _factors(d2, c2, f2)
    m1, m2 = [], []
    for k, (t, n2) in f2.items():
        n1 = f1.get(k, (None, 0))[1]
        if n2 > n1:
            m1.append((t, n2 - n1))
    for k, (t, n1) in f1.items():
        n2 = f2.get(k, (None, 0))[1]
        if n1 > n2:
            m2.append((t, n1 - n2))
    # numeric coefficients: use c1*c2 as common multiple (both positive by construction)
    M1 = _prod(m1, abs(c2[0]) if c1[0] != c2[0] else Fraction(1))
    M2 = _prod(m2, abs(c1[0]) if c1[0] != c2[0] else Fraction(1))
    return _mul(d1, M1), M1, M2


def frac_add(n1, d1, n2, d2, sub=False):
    L, m1, m2 = lcm_den(d1, d2)
    a, b = _mul(n1, m1), _mul(n2, m2)
    return (a - b if sub else a + b), L


def frac_sides(n1, d1, n2, d2):
    """(lhs, rhs) with n1/d1 ~ n2/d2  <=>  lhs ~ rhs  (denominators positive)."""
    L, m1, m2 = lcm_den(d1, d2)
    return _mul(n1, m1), _mul(n2, m2)


# ---------------------------------------------------------------------------
# EXP: syntactic exponential of a plain z3 term
# ---------------------------------------------------------------------------

def _lin_decompose(t, coeff, out):
    """Decompose z3 real term t into sum coeff_i * atom_i (+ const).

    out: dict key -> [Fraction coeff, z3 atom term]; key None = constant.
    """
    if z3.is_int(t):
        # look through ToReal
        pass
    if z3.is_rational_value(t) or z3.is_int_value(t):
        if z3.is_int_value(t):
            c = Fraction(t.as_long())
        else:
            c = Fraction(t.numerator_as_long(), t.denominator_as_long())
        e = out.setdefault(None, [Fraction(0), None])
        e[0] += coeff * c
        return
    if z3.is_app(t):
        k = t.decl().kind()
        ch = t.children()
        if k == z3.Z3_OP_ADD:
            for c in ch:
                _lin_decompose(c, coeff, out)
            return
        if k == z3.Z3_OP_SUB:
            _lin_decompose(ch[0], coeff, out)
            for c in ch[1:]:
                _lin_decompose(c, -coeff, out)
            return
        if k == z3.Z3_OP_UMINUS:
            _lin_decompose(ch[0], -coeff, out)
            return
        if k == z3.Z3_OP_TO_REAL:
            if z3.is_int_value(ch[0]):
                _lin_decompose(ch[0], coeff, out)
                return
        if k == z3.Z3_OP_MUL:
            nums = [c for c in ch if z3.is_rational_value(c) or z3.is_int_value(c)]
            rest = [c for c in ch if not (z3.is_rational_value(c) or z3.is_int_value(c))]
            if nums:
                f = Fraction(1)
                for c in nums:
                    if z3.is_int_value(c):
                        f *= Fraction(c.as_long())
                    else:
                        f *= Fraction(c.numerator_as_long(), c.denominator_as_long())
                if not rest:
                    e = out.setdefault(None, [Fraction(0), None])
                    e[0] += coeff * f
                    return
                r = rest[0]
                for c in rest[1:]:
                    r = r * c
                _lin_decompose(r, coeff * f, out)
                return
        if k == z3.Z3_OP_DIV:
            a, b = ch
            if z3.is_rational_value(b) or z3.is_int_value(b):
                if z3.is_int_value(b):
                    f = Fraction(b.as_long())
                else:
                    f = Fraction(b.numerator_as_long(), b.denominator_as_long())
                if f != 0:
                    _lin_decompose(a, coeff / f, out)
                    return
            if z3.is_rational_value(a) or z3.is_int_value(a):
                if z3.is_int_value(a):
                    f = Fraction(a.as_long())
                else:
                    f = Fraction(a.numerator_as_long(), a.denominator_as_long())
                inv = ONE / b
                key = inv.get_id()
                e = out.setdefault(key, [Fraction(0), inv])
                e[0] += coeff * f
                return
    key = t.get_id()
    e = out.setdefault(key, [Fraction(0), t])
    e[0] += coeff


def EXP_pair(t):
    """Return (P, Q) z3 terms with exp(t) = P / Q, both products of atoms."""
    ctx = _ctx()
    memo = ctx.aux.setdefault("_exp_memo", {})
    got = memo.get(t.get_id())
    if got is not None:
        return got[0], got[1]
    out = {}
    _lin_decompose(t, Fraction(1), out)
    P, Q = ONE, ONE
    for key, (c, atom) in out.items():
        if c == 0:
            continue
        if key is None:
            # constant c = p/q: exp(c) = B_q^p with the base B_q = exp(1/q); bases are linked by B_q^q = e,
            # so that e.g. exp(-1/2)*exp(-1/2) and exp(-1) denote the same number
            p_, q_ = c.numerator, c.denominator
            if q_ <= 64 and abs(p_) <= 64:
                X, Y = ctx.exp_const_base(q_)
                base = X if p_ > 0 else Y
                for _ in range(abs(p_)):
                    P = _mul(P, base)
                continue
            atom = rv(abs(c))
            X, Y = ctx.exp_atom(atom)
            if c > 0:
                P = _mul(P, X)
            else:
                P = _mul(P, Y)
            continue
        if c.denominator != 1:
            # rational multiple: atom on (atom / q)
            q = c.denominator
            atom = atom / rv(q)
            c = Fraction(c.numerator)
        X, Y = ctx.exp_atom(atom)
        k = int(c)
        base = X if k > 0 else Y
        for _ in range(abs(k)):
            P = _mul(P, base)
    if len(out) >= 3 and getattr(ctx, "exp_axioms", "minimal") == "full":
        # ground instances of monotonicity for the whole exponent: the pairwise closure axioms of exp_atom do not
        # reach sums of three or more atoms (e.g. r^2 s^2 c'^2 + r^2 s^2 s'^2 + r^2 c^2 - r^2 = 0)
        ctx.add_hyp(z3.And(z3.Implies(t == 0, P == Q), z3.Implies(t > 0, P > Q), z3.Implies(t < 0, P < Q)))
    memo[t.get_id()] = (P, Q, t)
    return P, Q


def EXP(t):
    P, Q = EXP_pair(t)
    if _is_one(Q):
        return P
    return P / Q


# ---------------------------------------------------------------------------
# SymBool
# ---------------------------------------------------------------------------

class SymBool:
    __slots__ = ("e",)

    def __init__(self, e):
        self.e = e

    def __bool__(self):
        return _ctx().branch(self.e)

    def __and__(self, o):
        return SymBool(z3.And(self.e, _b(o)))

    __rand__ = __and__

    def __or__(self, o):
        return SymBool(z3.Or(self.e, _b(o)))

    __ror__ = __or__

    def __invert__(self):
        return SymBool(z3.Not(self.e))

    def __xor__(self, o):
        return SymBool(z3.Xor(self.e, _b(o)))

    __rxor__ = __xor__

    def __eq__(self, o):
        return SymBool(self.e == _b(o))

    def __ne__(self, o):
        return SymBool(self.e != _b(o))

    __hash__ = object.__hash__

    def __deepcopy__(self, memo):
        return self

    def __copy__(self):
        return self

    def __repr__(self):
        return "<symbool>"

    def __format__(self, spec):
        return "<symbool>"

    def __index__(self):
        return int(bool(self))

    def __int__(self):
        return int(bool(self))

    def __add__(self, o):
        return int(bool(self)) + o

    __radd__ = __add__


def _b(o):
    if isinstance(o, SymBool):
        return o.e
    if isinstance(o, (bool, np.bool_)):
        return z3.BoolVal(bool(o))
    if z3.is_bool(o):
        return o
    raise TypeError(f"cannot use {type(o)} as a boolean term")


# ---------------------------------------------------------------------------
# Sym
# ---------------------------------------------------------------------------

class Sym:
    """p + log(num/den); plain iff num is None."""

    __slots__ = ("p", "num", "den", "d", "is_int")

    def __init__(self, p, num=None, den=None, d=None, is_int=False):
        self.p = p
        self.num = num
        self.den = den if num is not None else None
        if num is not None and den is None:
            self.den = ONE
        self.d = d
        self.is_int = is_int

    # -- kinds ------------------------------------------------------------
    @property
    def plain(self):
        return self.num is None

    def real(self):
        """z3 real term of the plain part."""
        return _to_real(self.p)

    def value_pair(self):
        """(A, B) with exp(self) = A/B  (for comparisons)."""
        P, Q = EXP_pair(self.real())
        if self.num is None:
            return P, Q
        return _mul(P, self.num), _mul(Q, self.den)

    def __deepcopy__(self, memo):
        return self  # immutable

    def __copy__(self):
        return self

    # -- formatting (never realise) ----------------------------------------
    def __repr__(self):
        return "<sym>"

    __str__ = __repr__

    def __format__(self, spec):
        return "<sym>"

    __hash__ = object.__hash__

    # -- conversion -----------------------------------------------------------
    def __bool__(self):
        return bool(self != 0)

    def __float__(self):
        raise Unsupported("float() of a symbolic value (needs a float64 container?)")

    def __index__(self):
        if not self.is_int:
            raise TypeError("symbolic real used as index")
        return _ctx().concretize_int(self.p)

    def __int__(self):
        if self.is_int:
            return _ctx().concretize_int(self.p)
        if not self.plain:
            raise Unsupported("int() of log-kind value")
        # truncation toward zero of a real
        t = self.real()
        fl = z3.ToInt(t)
        tr = z3.If(t >= 0, fl, z3.If(z3.ToReal(fl) == t, fl, fl + 1))
        return _ctx().concretize_int(tr)

    def item(self):
        return self

    def copy(self):
        return self

    def astype(self, *a, **k):
        return self

    @property
    def dtype(self):
        return np.dtype(object)

    @property
    def shape(self):
        return ()

    @property
    def ndim(self):
        return 0

    @property
    def size(self):
        return 1

    # -- arithmetic -------------------------------------------------------
    def _coerce(self, o):
        return lift(o)

    def __add__(self, o):
        if isinstance(o, np.ndarray):
            return _elementwise(lambda x: self + x, o)
        o = lift(o)
        if o is NotImplemented:
            return NotImplemented
        if isinstance(o, float):  # +-inf / nan
            return _add_special(self, o)
        f = _fold("add", self, o)
        if f is not None:
            return f
        if self.is_int and o.is_int:
            r = Sym(self.p + o.p, is_int=True)
        elif self.num is None and o.num is None:
            r = Sym(_add(self.real(), o.real()))
        else:
            n1, d1 = (self.num, self.den) if self.num is not None else (ONE, ONE)
            n2, d2 = (o.num, o.den) if o.num is not None else (ONE, ONE)
            r = Sym(_add(self.real(), o.real()), _mul(n1, n2), _mul(d1, d2))
        if self.d is not None or o.d is not None:
            r.d = _dz(self) + _dz(o)
        return r

    __radd__ = __add__

    def __neg__(self):
        if self.num is None:
            c = _numeral(self.p) if self.d is None else None
            if c is not None:
                return Sym(z3.IntVal(int(-c)), is_int=True) if self.is_int else Sym(rv(-c))
            r = Sym(-self.p, is_int=self.is_int)
        else:
            # -(p + log(n/d)) = -p + log(d/n); requires n > 0
            if not _ctx().domain(self.num > 0, "negation of -inf"):
                return math.inf
            r = Sym(-self.real(), self.den, self.num)
        if self.d is not None:
            r.d = -self.d
        return r

    def __pos__(self):
        return self

    def __sub__(self, o):
        if isinstance(o, np.ndarray):
            return _elementwise(lambda x: self - x, o)
        o = lift(o)
        if o is NotImplemented:
            return NotImplemented
        if isinstance(o, float):
            return _add_special(self, -o)
        no = -o
        if isinstance(no, float):
            return _add_special(self, no)
        return self + no

    def __rsub__(self, o):
        if isinstance(o, np.ndarray):
            return _elementwise(lambda x: x - self, o)
        o = lift(o)
        if o is NotImplemented:
            return NotImplemented
        if isinstance(o, float):
            return _add_special(-self, o)
        ns = -self
        if isinstance(ns, float):
            return _add_special(o, ns)
        return o + ns

    def __mul__(self, o):
        if isinstance(o, np.ndarray):
            return _elementwise(lambda x: self * x, o)
        o = lift(o)
        if o is NotImplemented:
            return NotImplemented
        if isinstance(o, float):
            return _mul_special(self, o)
        f = _fold("mul", self, o)
        if f is not None:
            return f
        a, b = self, o
        if a.is_int and b.is_int:
            r = Sym(a.p * b.p, is_int=True)
        elif a.num is None and b.num is None:
            r = Sym(_mul(a.real(), b.real()))
        else:
            # log-kind times integer constant
            if a.num is None:
                a, b = b, a
            k = _const_int(b)
            if k is None and a.d is None and _const_frac(b) is not None:
                # rational multiple m/q (q = 2 or 3) of p + log(n/d):  (m/q) p + log(root_q(n)^m / root_q(d)^m).
                # A float constant such as 1/3 - 1 is taken as the simple fraction it approximates to 1e-15.
                f = _const_frac(b)
                g = f.limit_denominator(6)
                if g.denominator in (2, 3) and abs(float(f) - float(g)) <= 1e-15 * max(1.0, abs(float(g))):
                    c = _ctx()
                    root = c.sqrt_term if g.denominator == 2 else c.cbrt_term
                    rn, rd = root(a.num), root(a.den)
                    if rn is not None and rd is not None:
                        m = g.numerator
                        if g.denominator == 3:
                            c.add_hyp(z3.And(z3.Implies(a.num >= 0, rn >= 0), z3.Implies(a.den > 0, rd > 0)))
                        if m < 0:
                            if not c.domain(a.num > 0, "negative multiple of -inf"):
                                return math.inf
                            rn, rd, m = rd, rn, -m
                        return Sym(a.real() * rv(g), _pow(rn, m), _pow(rd, m))
            if k is None:
                return _ctx().opaque("mul", a, b)
            if k >= 0:
                r = Sym(a.real() * rv(k), _pow(a.num, k), _pow(a.den, k))
            else:
                if not _ctx().domain(a.num > 0, "negative multiple of -inf"):
                    return math.inf
                r = Sym(a.real() * rv(k), _pow(a.den, -k), _pow(a.num, -k))
            if a.d is not None:
                r.d = a.d * k
            return r
        if a.d is not None or b.d is not None:
            r.d = _dz(a) * b.nod() + a.nod() * _dz(b)
        return r

    __rmul__ = __mul__

    def __truediv__(self, o):
        if isinstance(o, np.ndarray):
            return _elementwise(lambda x: self / x, o)
        o = lift(o)
        if o is NotImplemented:
            return NotImplemented
        if isinstance(o, float):
            if math.isinf(o) and self.plain:
                return 0.0
            raise Unsupported("division by nan/inf")
        if self.num is not None or o.num is not None:
            k = _const_frac(o)
            if k is not None and o.num is None and k != 0 and (1 / k).denominator == 1:
                return self * int(1 / k)
            return _ctx().opaque("div", self, o)
        f = _fold("div", self, o)
        if f is not None:
            return f
        if not _ctx().nonzero(o.real()):
            # numpy semantics: x/0 = nan (x == 0) or +-inf, with a RuntimeWarning
            if bool(self == 0):
                return math.nan
            return math.inf if bool(self > 0) else -math.inf
        r = Sym(self.real() / o.real())
        if self.d is not None or o.d is not None:
            # (a/b)' = (a' b - a b') / b^2
            a0, b0 = self.nod(), o.nod()
            r.d = (_dz(self) * b0 - a0 * _dz(o)) / (b0 * b0)
        return r

    def __rtruediv__(self, o):
        if isinstance(o, np.ndarray):
            return _elementwise(lambda x: x / self, o)
        o = lift(o)
        if o is NotImplemented:
            return NotImplemented
        if isinstance(o, float):
            raise Unsupported("nan/inf divided by symbolic")
        return o / self

    def __floordiv__(self, o):
        o = lift(o)
        if o is NotImplemented or isinstance(o, float):
            return NotImplemented
        if self.is_int and o.is_int:
            c = _ctx()
            if not c.nonzero(_to_real(o.p)):
                raise ZeroDivisionError("integer division or modulo by zero")
            # python floor division; z3 div is floor for positive divisors
            if bool(SymBool(o.p > 0)):
                return Sym(self.p / o.p, is_int=True)
            raise Unsupported("floor division by a non-positive symbolic int")
        if self.plain and o.plain:
            if not _ctx().nonzero(o.real()):
                return math.nan
            return Sym(z3.ToReal(z3.ToInt(self.real() / o.real())))
        raise Unsupported("floordiv on log-kind values")

    def __rfloordiv__(self, o):
        o = lift(o)
        if o is NotImplemented or isinstance(o, float):
            return NotImplemented
        return o // self

    def __mod__(self, o):
        o = lift(o)
        if o is NotImplemented or isinstance(o, float):
            return NotImplemented
        if self.is_int and o.is_int:
            if not _ctx().nonzero(_to_real(o.p)):
                raise ZeroDivisionError("integer division or modulo by zero")
            if bool(SymBool(o.p > 0)):
                return Sym(self.p % o.p, is_int=True)
            raise Unsupported("mod by non-positive symbolic int")
        if self.plain and o.plain:
            # real modulo (result has the sign of the divisor); decided by case split on the winding number
            if not bool(o > 0):
                raise Unsupported("modulo by a non-positive real")
            for kq in (0, -1, 1, -2, 2):
                lo_ = o * kq
                hi_ = o * (kq + 1)
                if bool((self >= lo_) & (self < hi_)):
                    r = self - lo_
                    return r
            raise Unsupported("modulo: value outside [-2m, 3m)")
        raise Unsupported("mod on log-kind values")

    def __rmod__(self, o):
        o = lift(o)
        if o is NotImplemented or isinstance(o, float):
            return NotImplemented
        return o % self

    def __pow__(self, k):
        kk = k if isinstance(k, (int, np.integer)) else None
        if kk is None and isinstance(k, (float, np.floating)) and float(k).is_integer():
            kk = int(k)
        if kk is None and isinstance(k, (float, np.floating)) and float(k) == 0.5:
            return self.sqrt()
        if kk is None and isinstance(k, (float, np.floating)) and abs(float(k) - 1.0 / 3.0) < 1e-15 and self.plain and self.d is None:
            # x ** (1/3): the real cube root for x >= 0, nan for x < 0 (numpy)
            c = _ctx()
            if not c.domain(self.p >= 0, "fractional power of a negative number"):
                return math.nan
            return Sym(c.cbrt_term(self.p))
        if kk is None or kk < 0 and not self.plain:
            return _ctx().opaque("pow", self, lift(k))
        if not self.plain:
            return self * kk
        if kk == 0:
            return Sym(ONE)
        r = self
        for _ in range(abs(kk) - 1):
            r = r * self
        if kk < 0:
            r = 1 / r
        return r

    def __abs__(self):
        if not self.plain:
            # |p + log(n/d)|: decide the sign (fork), the value stays exact
            if self.d is not None:
                raise Unsupported("abs of log-kind dual number")
            return self if bool(self >= 0) else -self
        t = self.p
        r = Sym(z3.If(t >= 0, t, -t), is_int=self.is_int)
        if self.d is not None:
            r.d = _ite_sym(SymBool(self.real() >= 0), self.d, -self.d)
        return r

    # -- numpy elementwise method protocol ---------------------------------
    def exp(self):
        P, Q = self.value_pair()
        t = P if _is_one(Q) else P / Q
        r = Sym(t)
        if self.d is not None:
            r.d = Sym(t) * self.d
        return r

    def log(self):
        if not self.plain:
            return _ctx().opaque("log", self)
        inv = _ctx().log_of_atom(self.real())
        if inv is not None:
            r = Sym(inv)
            if self.d is not None:
                r.d = self.d / self.nod()
            return r
        if not _ctx().domain(self.real() >= 0, "log of a negative number"):
            return math.nan
        N, D = ratfun(self.real())
        N = z3.simplify(N)
        if not _is_one(D):
            D = z3.simplify(D)
            c = _ctx()
            if c.valid(D > 0):
                pass
            elif c.valid(D < 0):
                N, D = -N, -D
            else:
                N, D = self.real(), ONE
        r = Sym(ZERO, N, D)
        if self.d is not None:
            r.d = self.d / self.nod()
        return r

    def log1p(self):
        return (1 + self).log()

    def log2(self):
        return _ctx().opaque("log2", self)

    def expm1(self):
        return self.exp() - 1

    def sqrt(self):
        if not self.plain:
            return self / 2 if False else _ctx().opaque("sqrt", self)
        st = _ctx().sqrt_term(self.real())
        if st is None:
            return math.nan
        r = Sym(st)
        if self.d is not None:
            r.d = self.d / (2 * r)
        return r

    def cbrt(self):
        return Sym(_ctx().cbrt_term(self.real()))

    def sin(self):
        r = Sym(_ctx().trig("sin", self.real()))
        if self.d is not None:
            r.d = Sym(_ctx().trig("cos", self.real())) * self.d
        return r

    def cos(self):
        r = Sym(_ctx().trig("cos", self.real()))
        if self.d is not None:
            r.d = -Sym(_ctx().trig("sin", self.real())) * self.d
        return r

    def conjugate(self):
        return self

    def nod(self):
        """Same value without tangent."""
        if self.d is None:
            return self
        return Sym(self.p, self.num, self.den, None, self.is_int)

    # -- comparisons -------------------------------------------------------
    def _cmp(self, o, op):
        if isinstance(o, np.ndarray):
            return NotImplemented
        o = lift(o)
        if o is NotImplemented:
            return NotImplemented
        if isinstance(o, float):
            return _cmp_special(self, o, op)
        if self.num is None and o.num is None:
            if self.is_int and o.is_int:
                a, b = self.p, o.p
            else:
                a, b = self.real(), o.real()
        else:
            # compare exp(self - o) with 1, division free
            diff = _add(self.real(), -o.real()) if not _same(self.p, o.p) else ZERO
            P, Q = EXP_pair(diff) if not _is_zero(diff) else (ONE, ONE)
            n1, d1 = (self.num, self.den) if self.num is not None else (ONE, ONE)
            n2, d2 = (o.num, o.den) if o.num is not None else (ONE, ONE)
            a, b = frac_sides(_mul(P, n1), d1, _mul(Q, n2), d2)
        if op == "lt":
            return SymBool(a < b)
        if op == "le":
            return SymBool(a <= b)
        if op == "gt":
            return SymBool(a > b)
        if op == "ge":
            return SymBool(a >= b)
        if op == "eq":
            return SymBool(a == b)
        return SymBool(a != b)

    def __lt__(self, o):
        return self._cmp(o, "lt")

    def __le__(self, o):
        return self._cmp(o, "le")

    def __gt__(self, o):
        return self._cmp(o, "gt")

    def __ge__(self, o):
        return self._cmp(o, "ge")

    def __eq__(self, o):
        return self._cmp(o, "eq")

    def __ne__(self, o):
        return self._cmp(o, "ne")


def _same(a, b):
    return a is b or a.get_id() == b.get_id()


def _pow(t, k):
    r = ONE
    for _ in range(k):
        r = _mul(r, t)
    return r


def _const_int(s):
    f = _const_frac(s)
    if f is not None and f.denominator == 1:
        return int(f)
    return None


def _const_frac(s):
    if s.num is not None:
        return None
    t = s.p
    if z3.is_int_value(t):
        return Fraction(t.as_long())
    if z3.is_rational_value(t):
        return Fraction(t.numerator_as_long(), t.denominator_as_long())
    return None


def _fold(op, a, b):
    """Constant folding for plain numerals (keeps exp() decompositions consistent)."""
    if a.num is not None or b.num is not None or a.d is not None or b.d is not None:
        return None
    x, y = _numeral(a.p), _numeral(b.p)
    if x is None or y is None:
        return None
    if op == "add":
        r = x + y
    elif op == "mul":
        r = x * y
    elif op == "div":
        if y == 0:
            return None
        r = x / y
        return Sym(rv(r))
    if a.is_int and b.is_int and r.denominator == 1:
        return Sym(z3.IntVal(int(r)), is_int=True)
    return Sym(rv(r))


def _dz(s):
    return s.d if s.d is not None else 0


def _ite_sym(c, a, b):
    a, b = lift(a), lift(b)
    return Sym(z3.If(c.e, a.real(), b.real()))


def _elementwise(f, arr):
    out = np.empty(arr.shape, dtype=object)
    flat = out.reshape(-1)
    for i, x in enumerate(arr.reshape(-1)):
        flat[i] = f(x)
    return out


def lift(o):
    """Lift a python/numpy number to Sym; non-finite floats are returned as
    python floats (handled specially); unknown types -> NotImplemented."""
    if isinstance(o, Sym):
        return o
    if isinstance(o, SymBool):
        return Sym(z3.If(o.e, z3.IntVal(1), z3.IntVal(0)), is_int=True)
    if isinstance(o, (bool, np.bool_)):
        return Sym(z3.IntVal(int(o)), is_int=True)
    if isinstance(o, (int, np.integer)):
        return Sym(z3.IntVal(int(o)), is_int=True)
    if isinstance(o, Fraction):
        return Sym(rv(o))
    if isinstance(o, (float, np.floating)):
        f = float(o)
        if math.isfinite(f):
            return Sym(rv(f))
        return f
    if isinstance(o, np.ndarray) and o.ndim == 0:
        return lift(o.item())
    return NotImplemented


def may_be_neginf(s):
    return isinstance(s, Sym) and s.num is not None


def _add_special(s, f):
    # s finite-or-neginf + (inf | -inf | nan)
    if isinstance(s, float):
        return s + f
    if math.isnan(f):
        return f
    if s.num is None:
        return f
    if f == -math.inf:
        return f
    # +inf + value that might be -inf
    if not _ctx().domain(s.num > 0, "+inf added to -inf"):
        return math.nan
    return f


def _mul_special(s, f):
    raise Unsupported("multiplication of symbolic by nan/inf")


def _cmp_special(s, f, op):
    """Compare symbolic value with nan / +-inf."""
    if math.isnan(f):
        return op == "ne"
    if f == math.inf:
        # s is never +inf
        return op in ("lt", "le", "ne")
    # f == -inf
    if s.num is None:
        return op in ("gt", "ge", "ne")
    isneg = s.num == 0
    if op in ("gt", "ne"):
        return SymBool(z3.Not(isneg))
    if op in ("le", "eq"):
        return SymBool(isneg)
    if op == "ge":
        return True
    return False  # lt


# ---------------------------------------------------------------------------
# rational-function normaliser: term -> (N, D) with term = N / D, division free
# ---------------------------------------------------------------------------

def ratfun(t, _cache=None):
    t = _to_real(t)
    if _cache is None:
        _cache = _ctx().aux.setdefault("_ratfun", {})
    key = t.get_id()
    if key in _cache:
        return _cache[key][:2]
    res = None
    if z3.is_app(t) and t.num_args() > 0:
        k = t.decl().kind()
        ch = t.children()
        if k == z3.Z3_OP_ADD or k == z3.Z3_OP_SUB:
            parts = [ratfun(c, _cache) for c in ch]
            if all(_is_one(d) for _, d in parts):
                res = (t, ONE)
            else:
                N, D = parts[0]
                for (n2, d2) in parts[1:]:
                    N, D = frac_add(N, D, n2, d2, sub=(k != z3.Z3_OP_ADD))
                res = (N, D)
        elif k == z3.Z3_OP_UMINUS:
            n, d = ratfun(ch[0], _cache)
            res = (-n, d)
        elif k == z3.Z3_OP_MUL:
            parts = [ratfun(c, _cache) for c in ch]
            if all(_is_one(d) for _, d in parts):
                res = (t, ONE)
            else:
                N, D = ONE, ONE
                for n2, d2 in parts:
                    N, D = _mul(N, n2), _mul(D, d2)
                res = (N, D)
        elif k == z3.Z3_OP_DIV:
            (n1, d1), (n2, d2) = ratfun(ch[0], _cache), ratfun(ch[1], _cache)
            res = (_mul(n1, d2), _mul(d1, n2))
    if res is None:
        res = (t, ONE)
    _cache[key] = (res[0], res[1], t)  # keep t alive: z3 reuses AST ids of collected terms
    return res
