"""sx engine: symbolic execution of real Python code by re-execution.

A *body* is a function  body(ctx)  that builds symbolic inputs through `ctx`,
calls the real code, and states obligations with `ctx.prove`.  The engine runs
the body once per path: symbolic booleans ask `ctx.branch`, which consults the
decision prefix (replay) or the solver (new decision; the other feasible side
is queued).  The same body runs in concrete mode (`ConcCtx`) on inputs taken
from a solver model -- that is how counterexamples are replayed against the
unpatched code and how path witnesses are validated.
"""
import collections
import math
import os
import sys
import time
import traceback
from fractions import Fraction

import z3

CURRENT = None  # the active context (symbolic or concrete)


def guarded_check(solver, timeout_ms):
    """solver.check() with a watchdog: z3's own timeout is not always honoured by nlsat,
    so a timer interrupts the context; an interrupted check counts as `unknown`."""
    import threading
    fired = []

    def stop():
        fired.append(True)
        z3.main_ctx().interrupt()
    t = threading.Timer(timeout_ms / 1000.0 * 1.25 + 1.0, stop)
    t.daemon = True
    t.start()
    try:
        r = solver.check()
    except z3.Z3Exception:
        r = z3.unknown
    finally:
        t.cancel()
    if fired:
        return z3.unknown
    return r


class PathAbort(BaseException):
    """Base of the engine's control-flow exceptions (BaseException so that
    `except Exception` in the code under test does not swallow them)."""


class Infeasible(PathAbort):
    pass


class OutOfBound(PathAbort):
    pass


class Inconclusive(PathAbort):
    pass


class DomainViolation(Exception):
    """The real code would compute log of a negative number, -(-inf), ..."""


def _expr(c):
    from .values import SymBool, Sym
    if isinstance(c, SymBool):
        return c.e
    if z3.is_bool(c):
        return c
    if isinstance(c, Sym):
        return (c != 0).e
    return None


# ---------------------------------------------------------------------------
# symbolic context
# ---------------------------------------------------------------------------

class SymCtx:
    mode = "sym"

    def __init__(self, prefix=(), timeout_ms=20000, max_enum=64, exp_axioms="full", logic=None, fresh=False):
        self.prefix = tuple(prefix)
        self.trace = []
        self.new_prefixes = []
        self.solver = z3.SolverFor(logic) if logic else z3.Solver()
        self.solver.set("timeout", timeout_ms)
        self.light = z3.SolverFor(logic) if logic else z3.Solver()
        self.light.set("timeout", min(timeout_ms, 5000))
        self.use_light = True
        self.fresh_solver = fresh  # one-shot solver per query: z3 then uses nlsat (incremental mode falls back to the weaker SMT core for NRA)
        self.pc = []
        self.hyps = []
        self.timeout_ms = timeout_ms
        self.max_enum = max_enum
        self.exp_axioms = exp_axioms
        self.model = None
        self.nq = collections.Counter()
        self.solver_s = 0.0
        self.inputs = collections.OrderedDict()  # name -> (kind, z3 term)
        self.choices = collections.OrderedDict()
        self.atoms = {}
        self.atom_list = []
        self.aux = {}
        self.counter = collections.Counter()
        self.obligations = []  # (label, status)
        self.violations = []
        self.covers = collections.Counter()
        self.used_opaque = 0
        self.keep = []  # terms whose AST ids are used as cache keys must stay alive
        self.domain_hits = []
        self.notes = []
        self.observed = collections.OrderedDict()
        self.funcs = {}

    # -- naming ---------------------------------------------------------------
    def fresh(self, base):
        self.counter[base] += 1
        return f"{base}!{self.counter[base]}"

    # -- solver plumbing --------------------------------------------------------
    def _check(self, *extra):
        t0 = time.time()
        if self.fresh_solver:
            sv = z3.Solver()
            sv.set("timeout", self.timeout_ms)
            sv.add(*self.pc)
            sv.add(*extra)
            r = guarded_check(sv, self.timeout_ms)
            m = sv.model() if r == z3.sat else None
        else:
            if extra:
                self.solver.push()
                for e in extra:
                    self.solver.add(e)
            r = self.solver.check()
            m = None
            if r == z3.sat:
                m = self.solver.model()
            if extra:
                self.solver.pop()
        dt = time.time() - t0
        self.solver_s += dt
        if dt > 2 and os.environ.get("SX_SLOW"):
            print(f"[slow query {dt:.1f}s -> {r}] extra={[str(e)[:300] for e in extra]} n_assert={len(self.pc) if self.fresh_solver else len(self.solver.assertions())}", file=sys.stderr)
        rs = str(r)
        self.nq[rs] += 1
        if rs == "unknown":
            # usually a timeout on a loaded machine: one retry on a fresh solver with four times the budget before giving up
            t1 = time.time()
            sv = z3.Solver()
            sv.set("timeout", self.timeout_ms * 4)
            sv.add(*(self.pc if self.fresh_solver else list(self.solver.assertions())))
            sv.add(*extra)
            r2 = guarded_check(sv, self.timeout_ms * 4)
            self.solver_s += time.time() - t1
            self.nq["retry_" + str(r2)] += 1
            if r2 != z3.unknown:
                rs = str(r2)
                m = sv.model() if r2 == z3.sat else None
        return rs, m

    def add(self, e):
        if self.fresh_solver:
            self.pc.append(e)
        else:
            self.solver.add(e)
        if self.model is not None:
            try:
                v = self.model.eval(e, model_completion=True)
                if not z3.is_true(v):
                    self.model = None
            except z3.Z3Exception:
                self.model = None

    def add_hyp(self, e):
        """A hypothesis (assumption / axiom): goes to the light solver too."""
        if self.fresh_solver:
            self.hyps.append(e)
        else:
            self.light.add(e)
        self.add(e)

    def _light(self, e):
        """True iff the hypotheses alone refute e (then pc and e is unsat too)."""
        if not self.use_light:
            return False
        t0 = time.time()
        if self.fresh_solver:
            sv = z3.Solver()
            sv.set("timeout", min(self.timeout_ms, 5000))
            sv.add(*self.hyps)
            sv.add(e)
            r = guarded_check(sv, min(self.timeout_ms, 5000))
        else:
            self.light.push()
            self.light.add(e)
            r = self.light.check()
            self.light.pop()
        self.solver_s += time.time() - t0
        self.nq["light_" + str(r)] += 1
        return r == z3.unsat

    def feasible(self):
        if self.model is not None:
            return True
        r, m = self._check()
        if r == "unknown":
            raise Inconclusive("solver unknown on path condition")
        if r == "sat":
            self.model = m
            return True
        return False

    # -- decisions --------------------------------------------------------------
    def _replaying(self):
        return len(self.trace) < len(self.prefix)

    def branch(self, e):
        if not z3.is_bool(e):
            e = _expr(e)
        e_s = z3.simplify(e)
        if z3.is_true(e_s):
            return True
        if z3.is_false(e_s):
            return False
        i = len(self.trace)
        if i < len(self.prefix):
            kind, d = self.prefix[i]
            if kind != "b":
                raise RuntimeError(f"non-deterministic re-execution: expected {kind} decision, got branch")
            self.trace.append(("b", d))
            self.add(e if d else z3.Not(e))
            return d
        t_feas = f_feas = None
        mt = mf = None
        if self.model is not None:
            try:
                v = self.model.eval(e, model_completion=True)
                if z3.is_true(v):
                    t_feas, mt = True, self.model
                elif z3.is_false(v):
                    f_feas, mf = True, self.model
            except z3.Z3Exception:
                pass
        if t_feas is None:
            if self._light(e):
                t_feas = False
            else:
                r, mt = self._check(e)
                if r == "unknown":
                    raise Inconclusive("solver unknown at branch")
                t_feas = r == "sat"
        if f_feas is None:
            if self._light(z3.Not(e)):
                f_feas = False
            else:
                r, mf = self._check(z3.Not(e))
                if r == "unknown":
                    raise Inconclusive("solver unknown at branch")
                f_feas = r == "sat"
        if t_feas and f_feas:
            self.new_prefixes.append(tuple(self.trace) + (("b", False),))
            d = True
        elif t_feas:
            d = True
        elif f_feas:
            d = False
        else:
            raise Infeasible("path condition became unsatisfiable")
        self.trace.append(("b", d))
        if self.fresh_solver:
            self.pc.append(e if d else z3.Not(e))
        else:
            self.solver.add(e if d else z3.Not(e))
        self.model = mt if d else mf
        return d

    def choice(self, name, n):
        """Nondeterministic choice among range(n) (all explored)."""
        if n <= 0:
            raise ValueError("choice among nothing")
        i = len(self.trace)
        if i < len(self.prefix):
            kind, d = self.prefix[i]
            if kind != "c":
                raise RuntimeError("non-deterministic re-execution (choice)")
        else:
            d = 0
            for k in range(n - 1, 0, -1):
                self.new_prefixes.append(tuple(self.trace) + (("c", k),))
        self.trace.append(("c", d))
        self.choices[self.fresh("ch:" + name)] = d
        return d

    def concretize_int(self, term):
        t = z3.simplify(term)
        if z3.is_int_value(t):
            return t.as_long()
        i = len(self.trace)
        if i < len(self.prefix):
            kind, v = self.prefix[i]
            if kind != "v":
                raise RuntimeError("non-deterministic re-execution (concretize)")
        else:
            vals = []
            if self.fresh_solver:
                sv = z3.Solver()
                sv.set("timeout", self.timeout_ms)
                sv.add(*self.pc)
            else:
                sv = self.solver
                sv.push()
            t0 = time.time()
            try:
                while True:
                    r = sv.check()
                    self.nq[str(r)] += 1
                    if r == z3.unknown:
                        raise Inconclusive("solver unknown while concretising an integer")
                    if r == z3.unsat:
                        break
                    m = sv.model()
                    v = m.eval(term, model_completion=True).as_long()
                    vals.append(v)
                    if len(vals) > self.max_enum:
                        raise OutOfBound("integer has more than max_enum feasible values")
                    sv.add(term != v)
            finally:
                if not self.fresh_solver:
                    sv.pop()
                self.solver_s += time.time() - t0
            if not vals:
                raise Infeasible("no feasible integer value")
            vals.sort()
            v = vals[0]
            for w in vals[1:][::-1]:
                self.new_prefixes.append(tuple(self.trace) + (("v", w),))
        self.trace.append(("v", v))
        self.add(term == v)
        return v

    # -- assumptions, obligations -----------------------------------------------
    def assume(self, c):
        e = _expr(c)
        if e is None:
            if not c:
                raise Infeasible("concrete assumption false")
            return
        self.add_hyp(e)
        if not self.feasible():
            raise Infeasible("assumption infeasible")

    def axiom(self, c):
        """A true fact about an uninterpreted function (no feasibility check)."""
        e = _expr(c)
        if e is not None:
            self.add_hyp(e)

    def valid(self, c):
        e = _expr(c)
        if e is None:
            return bool(c)
        if self._light(z3.Not(e)):
            return True
        r, _ = self._check(z3.Not(e))
        if r == "unknown":
            return False
        return r == "unsat"

    def possible(self, c):
        e = _expr(c)
        if e is None:
            return bool(c)
        r, _ = self._check(e)
        if r == "unknown":
            raise Inconclusive("solver unknown (possible)")
        return r == "sat"

    def domain(self, e, msg):
        """Fork on a domain condition; returns False on the violating side (numpy
        would produce nan/inf with a RuntimeWarning there, not an exception)."""
        if self.branch(e):
            return True
        self.domain_hits.append(msg)
        return False

    def nonzero(self, t):
        """True iff t != 0 on this path (forks)."""
        if self.branch(t == 0):
            self.domain_hits.append("division by zero")
            return False
        return True

    def cover(self, label):
        self.covers[label] += 1

    def note(self, s):
        self.notes.append(s)

    def observe(self, name, value):
        self.observed[name] = value

    def prove(self, c, label):
        """Obligation: under the path condition, c holds."""
        e = _expr(c)
        if e is None:
            if bool(c):
                self.obligations.append((label, "concrete"))
                return True
            self._violation(label, self.model if self.feasible() else None, "concrete-false")
            return False
        if self._identity(e) or self._light(z3.Not(e)):
            self.obligations.append((label, "unsat"))
            return True
        r, m = self._check(z3.Not(e))
        if r == "unsat":
            self.obligations.append((label, "unsat"))
            return True
        if r == "unknown":
            self.obligations.append((label, "unknown"))
            return False
        self._violation(label, m, "sat")
        return False

    def _identity(self, e):
        """Generalised query: is e valid with NO hypotheses at all?  Polynomial
        identities are refuted-negation in milliseconds this way (nlsat normalises
        the polynomial), while the same query under the path condition can stall."""
        try:
            if not (z3.is_eq(e) and z3.is_arith(e.arg(0))):
                return False
            t0 = time.time()
            s = z3.Solver()
            s.set("timeout", 5000)
            s.add(z3.Not(e))
            r = guarded_check(s, 5000)
            self.solver_s += time.time() - t0
            self.nq["generalised_" + str(r)] += 1
            return r == z3.unsat
        except z3.Z3Exception:
            return False

    def prove_eq(self, a, b, label):
        from .values import Sym, lift
        la, lb = lift(a), lift(b)
        if isinstance(la, float) or isinstance(lb, float):
            # non-finite concrete on at least one side
            if isinstance(la, float) and isinstance(lb, float):
                ok = (la == lb) or (math.isnan(la) and math.isnan(lb))
                return self.prove(ok, label)
            return self.prove(la == lb, label)
        return self.prove(la == lb, label)

    def prove_le(self, a, b, label):
        return self.prove(a <= b, label)

    def fail(self, label, detail=""):
        """Unconditional violation on this (feasible) path."""
        self.feasible()
        self._violation(label, self.model, "reached", detail)

    def _violation(self, label, model, how, detail=""):
        self.obligations.append((label, "violated"))
        inputs = self.model_inputs(model) if model is not None else None
        self.violations.append(
            dict(label=label, how=how, detail=detail, inputs=inputs, trace=list(self.trace))
        )

    def model_inputs(self, model):
        vals = {}
        for name, (kind, term) in self.inputs.items():
            v = model.eval(term, model_completion=True)
            vals[name] = _z3_to_py(v)
        return dict(values=vals, choices=dict(self.choices), kinds={n: k for n, (k, _) in self.inputs.items()})

    # -- inputs ----------------------------------------------------------------
    def real(self, name, lo=None, hi=None):
        from .values import Sym, rv
        t = z3.Real(name)
        self.inputs[name] = ("real", t)
        if lo is not None:
            self.add_hyp(t >= rv(lo))
        if hi is not None:
            self.add_hyp(t <= rv(hi))
        return Sym(t)

    def int(self, name, lo=None, hi=None):
        from .values import Sym
        t = z3.Int(name)
        self.inputs[name] = ("int", t)
        if lo is not None:
            self.add_hyp(t >= lo)
        if hi is not None:
            self.add_hyp(t <= hi)
        return Sym(t, is_int=True)

    def bool(self, name):
        from .values import SymBool
        t = z3.Bool(name)
        self.inputs[name] = ("bool", t)
        return SymBool(t)

    def logval(self, name, positive=False):
        """A log-kind value log(E) with E >= 0 (E > 0 if positive)."""
        from .values import Sym, ZERO, ONE
        t = z3.Real(name)
        self.inputs[name] = ("explog", t)
        self.add_hyp(t > 0 if positive else t >= 0)
        return Sym(ZERO, t, ONE)

    # -- special functions -------------------------------------------------------
    def exp_atom(self, atom):
        """Positive constants X = exp(atom), Y = exp(-atom)."""
        key = atom.get_id()
        got = self.atoms.get(key)
        if got is not None:
            return got[0], got[1]
        k = len(self.atoms)
        X = z3.Real(f"expP!{k}")
        Y = z3.Real(f"expN!{k}")
        self.atoms[key] = (X, Y, atom)
        ax = [X > 0, Y > 0, X * Y == 1]
        if self.exp_axioms != "minimal":
            ax += [
                z3.Implies(atom > 0, z3.And(X > 1, Y < 1)),
                z3.Implies(atom < 0, z3.And(X < 1, Y > 1)),
                z3.Implies(atom == 0, z3.And(X == 1, Y == 1)),
            ]
        if self.exp_axioms == "full":
            ax += [X >= 1 + atom, Y >= 1 - atom]
            for (X2, Y2, a2) in self.atom_list:
                ax.append(z3.Implies(atom < a2, X < X2))
                ax.append(z3.Implies(atom > a2, X > X2))
                ax.append(z3.Implies(atom == a2, X == X2))
            # additive closure on ground instances: a_i + a_j = a_k  =>  X_i X_j = X_k  (and with -a_k)
            if len(self.atom_list) <= 10:
                L = self.atom_list
                for i in range(len(L)):
                    Xi, Yi, ai = L[i]
                    ax.append(z3.Implies(ai + atom == 0, Xi * X == 1))
                    for j in range(i, len(L)):
                        Xj, Yj, aj = L[j]
                        ax.append(z3.Implies(ai + aj == atom, Xi * Xj == X))
                        ax.append(z3.Implies(ai + atom == aj, Xi * X == Xj))
                        ax.append(z3.Implies(aj + atom == ai, Xj * X == Xi))
        self.atom_list.append((X, Y, atom))
        if z3.is_rational_value(atom):
            # numeric constant: rigorous rational enclosure of exp(c) from the Taylor series with remainder
            enc = _exp_enclosure(Fraction(atom.numerator_as_long(), atom.denominator_as_long()))
            if enc is not None:
                lo, hi = enc
                ax += [X >= z3.RealVal(f"{lo.numerator}/{lo.denominator}"), X <= z3.RealVal(f"{hi.numerator}/{hi.denominator}")]
        for a in ax:
            self.add_hyp(a)
        return X, Y

    def log_of_atom(self, t):
        """log(X) = a when X is exactly the atom standing for exp(a) (or exp(-a))."""
        tid = t.get_id()
        for (X, Y, atom) in self.atom_list:
            if X.get_id() == tid:
                return atom
            if Y.get_id() == tid:
                return -atom
        return None

    def exp_const_base(self, q):
        """(exp(1/q), exp(-1/q)) with the linking axioms exp(1/q)^q = e for all bases in use."""
        bases = self.aux.setdefault("_exp_bases", {})
        if q in bases:
            return bases[q]
        X, Y = self.exp_atom(z3.RealVal(f"1/{q}"))
        for q2, (X2, _) in bases.items():
            a, b = z3.RealVal(1), z3.RealVal(1)
            for _ in range(q):
                a = a * X
            for _ in range(q2):
                b = b * X2
            self.add_hyp(a == b)
        bases[q] = (X, Y)
        return bases[q]

    def sqrt_term(self, u):
        key = ("sqrt", u.get_id())
        if key in self.aux:
            return self.aux[key]
        if not self.domain(u >= 0, "sqrt of a negative number"):
            return None
        s = z3.Real(f"sqrt!{len(self.aux)}")
        self.aux[key] = s
        self.keep.append(u)
        self.add_hyp(s >= 0)
        self.add_hyp(s * s == u)
        return s

    def cbrt_term(self, u):
        key = ("cbrt", u.get_id())
        if key in self.aux:
            return self.aux[key]
        s = z3.Real(f"cbrt!{len(self.aux)}")
        self.aux[key] = s
        self.keep.append(u)
        self.add_hyp(s * s * s == u)
        return s

    def func(self, name, arity=1):
        f = self.funcs.get(name)
        if f is None:
            f = z3.Function(name, *([z3.RealSort()] * (arity + 1)))
            self.funcs[name] = f
        return f

    def trig(self, which, t):
        """sin(t) / cos(t) as real *constants* S_t, C_t (one pair per term) with ground axioms: keeping the
        formulas free of uninterpreted functions lets z3 use nlsat; congruence is added pairwise."""
        key = ("trig", t.get_id())
        got = self.aux.get(key)
        if got is None:
            k = len(self.aux)
            S, C = z3.Real(f"sin!{k}"), z3.Real(f"cos!{k}")
            self.keep.append(t)
            self.add_hyp(S * S + C * C == 1)
            for kk, val in list(self.aux.items()):
                if isinstance(kk, tuple) and kk and kk[0] == "trig":
                    t2, S2, C2 = val
                    self.add_hyp(z3.Implies(t == t2, z3.And(S == S2, C == C2)))
                    self.add_hyp(z3.Implies(t == -t2, z3.And(S == -S2, C == C2)))    # parity
            got = (t, S, C)
            self.aux[key] = got
        return got[1] if which == "sin" else got[2]

    def opaque(self, op, *operands):
        from .values import Sym
        key = [op]
        for o in operands:
            if isinstance(o, Sym):
                key.append((o.p.get_id(), None if o.num is None else (o.num.get_id(), o.den.get_id())))
            else:
                key.append(repr(o))
        key = tuple(key)
        got = self.aux.get(key)
        if got is None:
            got = z3.Real(f"opq_{op}!{len(self.aux)}")
            self.aux[key] = got
            self.keep.extend(o for o in operands)
        self.used_opaque += 1
        return Sym(got)

    def uf(self, name, *args):
        """Uninterpreted real function applied to symbolic/concrete reals."""
        from .values import lift, Sym, EXP_pair, _mul
        zs = []
        for a in args:
            a = lift(a)
            if isinstance(a, float):
                raise ValueError("uninterpreted function applied to a non-finite value")
            if a.num is None:
                zs.append(a.real())
            else:
                # log-kind argument p + log(n/d): a fresh real r with exp(r - p) = n/d (exp is injective: full axioms)
                key = ("asreal", a.p.get_id(), a.num.get_id(), a.den.get_id())
                r = self.aux.get(key)
                if r is None:
                    r = z3.Real(f"asreal!{len(self.aux)}")
                    self.aux[key] = r
                    self.keep.append(a)
                    P, Q = EXP_pair(r - a.real())
                    self.add_hyp(_mul(P, a.den) == _mul(Q, a.num))
                zs.append(r)
        return Sym(self.func(name, len(zs))(*zs))


def _exp_enclosure(c, terms=24):
    """Rational [lo, hi] containing exp(c) for a rational 0 <= c <= 8."""
    if c < 0 or c > 8:
        return None
    s, t = Fraction(0), Fraction(1)
    for k in range(terms):
        s += t
        t = t * c / (k + 1)
    # remainder: sum_{k>=terms} c^k/k! <= t / (1 - c/(terms+1))
    r = t / (1 - c / Fraction(terms + 1))
    lo, hi = s, s + r
    # keep the numerals small
    D = 10 ** 12
    lo = Fraction(int(lo * D), D)
    hi = Fraction(int(hi * D) + 1, D)
    return lo, hi


def _z3_to_py(v):
    if z3.is_int_value(v):
        return v.as_long()
    if z3.is_rational_value(v):
        return Fraction(v.numerator_as_long(), v.denominator_as_long())
    if z3.is_true(v):
        return True
    if z3.is_false(v):
        return False
    if z3.is_algebraic_value(v):
        a = v.approx(30)
        return Fraction(a.numerator_as_long(), a.denominator_as_long())
    return str(v)


# ---------------------------------------------------------------------------
# concrete context (replay / twin)
# ---------------------------------------------------------------------------

class ConcCtx:
    mode = "conc"

    def __init__(self, inputs=None, rng=None, rtol=1e-9, atol=1e-9):
        inputs = inputs or {}
        self.values = dict(inputs.get("values", {}))
        self.choices_in = dict(inputs.get("choices", {}))
        self.rng = rng
        self.rtol, self.atol = rtol, atol
        self.counter = collections.Counter()
        self.failures = []
        self.obligations = []
        self.covers = collections.Counter()
        self.notes = []
        self.observed = collections.OrderedDict()
        self.domain_hits = []
        self.used = {}

    def fresh(self, base):
        self.counter[base] += 1
        return f"{base}!{self.counter[base]}"

    def _get(self, name, default):
        if name in self.values:
            v = self.values[name]
        else:
            v = default()
        self.used[name] = v
        return v

    def real(self, name, lo=None, hi=None):
        def default():
            a = -3.0 if lo is None else lo
            b = 3.0 if hi is None else hi
            if self.rng is None:
                return (a + b) / 2
            # favour ties: draw from a small grid
            return float(self.rng.choice([a + (b - a) * k / 4 for k in range(5)]))
        return float(self._get(name, default))

    def int(self, name, lo=None, hi=None):
        def default():
            a = 0 if lo is None else lo
            b = a + 3 if hi is None else hi
            return a if self.rng is None else int(self.rng.integers(a, b + 1))
        return int(self._get(name, default))

    def bool(self, name):
        return bool(self._get(name, lambda: False if self.rng is None else bool(self.rng.integers(0, 2))))

    def logval(self, name, positive=False):
        def default():
            if self.rng is None:
                return 1.0
            grid = [0.5, 1.0, 2.0, 3.0] + ([] if positive else [0.0])
            return float(self.rng.choice(grid))
        v = float(self._get(name, default))
        return math.log(v) if v > 0 else -math.inf

    def choice(self, name, n):
        key = self.fresh("ch:" + name)
        if key in self.choices_in:
            return int(self.choices_in[key])
        if self.rng is None:
            return 0
        return int(self.rng.integers(0, n))

    def assume(self, c):
        if not bool(c):
            raise Infeasible("assumption false in concrete run")

    def valid(self, c):
        return bool(c)

    def axiom(self, c):
        pass

    def possible(self, c):
        return bool(c)

    def cover(self, label):
        self.covers[label] += 1

    def note(self, s):
        self.notes.append(s)

    def observe(self, name, value):
        self.observed[name] = value

    def prove(self, c, label):
        ok = bool(c)
        self.obligations.append((label, "ok" if ok else "FAILED"))
        if not ok:
            self.failures.append(dict(label=label))
        return ok

    def prove_eq(self, a, b, label):
        a, b = float(a), float(b)
        if math.isnan(a) or math.isnan(b):
            ok = math.isnan(a) and math.isnan(b)
        elif math.isinf(a) or math.isinf(b):
            ok = a == b
        else:
            ok = abs(a - b) <= self.atol + self.rtol * max(abs(a), abs(b))
        self.obligations.append((label, "ok" if ok else "FAILED"))
        if not ok:
            self.failures.append(dict(label=label, a=a, b=b))
        return ok

    def prove_le(self, a, b, label):
        a, b = float(a), float(b)
        ok = a <= b + self.atol + self.rtol * max(abs(a), abs(b))
        self.obligations.append((label, "ok" if ok else "FAILED"))
        if not ok:
            self.failures.append(dict(label=label, a=a, b=b))
        return ok

    def fail(self, label, detail=""):
        self.obligations.append((label, "FAILED"))
        self.failures.append(dict(label=label, detail=detail))

    def uf(self, name, *args):
        """Concrete stand-in for an uninterpreted function: a fixed, injective-ish
        deterministic real function of its arguments."""
        import hashlib
        # smooth (Lipschitz) pseudo-random function of the arguments: equal arguments up to rounding give equal values up to rounding
        h = hashlib.sha256(name.encode()).digest()
        v = 0.0
        for k, a in enumerate(args):
            a = float(a)
            if not math.isfinite(a):
                return math.nan
            c1 = 0.5 + h[(3 * k) % 32] / 255.0
            c2 = 0.3 + h[(3 * k + 1) % 32] / 400.0
            c3 = h[(3 * k + 2) % 32] / 40.0
            v += c1 * math.sin(c2 * a + c3) + 0.37 * (k + 1) * math.tanh(0.21 * a * (1 + h[(k + 7) % 32] / 255.0))
        return 1.7 * v


# ---------------------------------------------------------------------------
# drivers
# ---------------------------------------------------------------------------

class PathResult:
    __slots__ = ("status", "detail", "prefix", "ctx_summary")


def run_path(body, prefix, opts):
    """Run body on one path; returns (summary dict, new_prefixes)."""
    global CURRENT
    ctx = SymCtx(prefix, **{k: v for k, v in opts.items() if not k.startswith('_')})
    CURRENT = ctx
    status, detail = "ok", ""
    try:
        try:
            body(ctx)
        except Infeasible as e:
            status, detail = "infeasible", str(e)
        except OutOfBound as e:
            status, detail = "out_of_bound", str(e)
        except Inconclusive as e:
            status, detail = "inconclusive", str(e)
        except RecursionError:
            status, detail = "out_of_bound", "recursion"
        except Exception as e:  # escaped the harness: the harness did not expect it
            status = "exception"
            detail = f"{type(e).__name__}: {e}"
            tb = traceback.format_exc(limit=-6)
            try:
                ctx.feasible()
                ctx._violation("uncaught:" + type(e).__name__, ctx.model, "exception", detail + "\n" + tb)
            except (Inconclusive, Infeasible):
                status = "inconclusive"
    finally:
        CURRENT = None
    if status == "ok" and any(s == "unknown" for _, s in ctx.obligations):
        status = "inconclusive"
        detail = "obligation unknown"
    summ = dict(
        status=status,
        detail=detail,
        trace=list(ctx.trace),
        nq=dict(ctx.nq),
        solver_s=ctx.solver_s,
        obligations=list(ctx.obligations),
        violations=ctx.violations,
        covers=dict(ctx.covers),
        opaque=ctx.used_opaque,
        notes=ctx.notes,
        n_inputs=len(ctx.inputs),
    )
    if opts.get("_want_witness") and status == "ok":
        pass
    return summ, ctx.new_prefixes, ctx


class Aggregate:
    def __init__(self):
        self.paths = collections.Counter()
        self.nq = collections.Counter()
        self.solver_s = 0.0
        self.obl = collections.Counter()  # (label,status) -> n
        self.violations = []
        self.covers = collections.Counter()
        self.opaque = 0
        self.details = collections.Counter()
        self.witnesses = []  # model inputs for a sample of ok paths
        self.samples = []
        self.unexplored = 0
        self.max_depth = 0
        self.remaining = []

    def _keep_violation(self, v):
        # a few counterexamples per distinct label, every label kept: a flood of violations under one label (e.g. a listed
        # known finding) must never crowd out a violation under another
        per = self.__dict__.setdefault("_viol_per_label", collections.Counter())
        if per[v["label"]] < 6 and len(self.violations) < 20000:
            per[v["label"]] += 1
            self.violations.append(v)

    def add_path(self, s):
        self.paths[s["status"]] += 1
        self.nq.update(s["nq"])
        self.solver_s += s["solver_s"]
        for lab, st in s["obligations"]:
            self.obl[(lab, st)] += 1
        for v in s["violations"]:
            self._keep_violation(v)
        self.covers.update(s["covers"])
        self.opaque += s["opaque"]
        if s["status"] not in ("ok",):
            self.details[(s["status"], s["detail"][:160])] += 1
        self.max_depth = max(self.max_depth, len(s["trace"]))

    def merge(self, o):
        self.paths.update(o.paths)
        self.nq.update(o.nq)
        self.solver_s += o.solver_s
        self.obl.update(o.obl)
        for v in o.violations:
            self._keep_violation(v)
        self.covers.update(o.covers)
        self.opaque += o.opaque
        self.details.update(o.details)
        self.witnesses.extend(o.witnesses)
        self.samples.extend(o.samples)
        self.unexplored += o.unexplored
        self.max_depth = max(self.max_depth, o.max_depth)

    # convenience
    @property
    def n_paths(self):
        return sum(self.paths.values())

    def n_obl(self, *statuses):
        return sum(n for (lab, st), n in self.obl.items() if st in statuses)


def explore_subtree(body, root, opts, deadline, witness_every=0, sample_cap=3, max_paths=None):
    agg = Aggregate()
    stack = [tuple(root)]
    n = 0
    while stack:
        if time.time() > deadline:
            agg.unexplored += len(stack)
            break
        if max_paths is not None and n >= max_paths:
            agg.remaining = stack
            break
        prefix = stack.pop()
        s, new, ctx = run_path(body, prefix, opts)
        n += 1
        agg.add_path(s)
        stack.extend(new)
        if opts.get("_stop_on_violation") and agg.violations:
            break
        if s["status"] == "ok":
            want_w = witness_every and (n % witness_every == 1 or witness_every == 1)
            if want_w or len(agg.samples) < sample_cap:
                global CURRENT
                CURRENT = ctx
                try:
                    if ctx.feasible():
                        mi = ctx.model_inputs(ctx.model)
                        if want_w:
                            agg.witnesses.append(mi)
                        if len(agg.samples) < sample_cap:
                            agg.samples.append(
                                dict(
                                    decisions=len(s["trace"]),
                                    inputs={k: _show(v) for k, v in list(mi["values"].items())[:24]},
                                    choices=mi["choices"],
                                    obligations=[f"{l}:{st}" for l, st in s["obligations"][:12]],
                                )
                            )
                except (Inconclusive, Infeasible):
                    pass
                finally:
                    CURRENT = None
    return agg


def _show(v):
    if isinstance(v, Fraction):
        return float(v) if v.denominator != 1 else int(v)
    return v


_POOL_BODY = None
_POOL_OPTS = None


def _pool_task(args):
    root, deadline, witness_every, max_paths = args
    try:
        return explore_subtree(_POOL_BODY, root, _POOL_OPTS, deadline, witness_every, max_paths=max_paths)
    except BaseException as e:  # noqa
        a = Aggregate()
        a.paths["engine_error"] += 1
        a.details[("engine_error", f"{type(e).__name__}: {e}"[:160])] += 1
        return a


def explore(body, opts=None, nproc=None, time_budget_s=600, witness_every=0, split_target=None):
    """Explore all paths of body; parallel over first-level subtrees."""
    global _POOL_BODY, _POOL_OPTS
    opts = dict(opts or {})
    nproc = nproc or int(os.environ.get("VERIF_NPROC", "0")) or min(16, os.cpu_count() or 1)
    deadline = time.time() + time_budget_s
    agg = Aggregate()
    # phase 1: breadth-first expansion in the master
    from collections import deque
    queue = deque([()])
    target = split_target or (nproc * 6 if nproc > 1 else 10**9)
    n = 0
    if nproc > 1:
        while queue and len(queue) < target and n < 4 * target:
            prefix = queue.popleft()
            s, new, ctx = run_path(body, prefix, opts)
            n += 1
            agg.add_path(s)
            queue.extend(new)
            if opts.get("_stop_on_violation") and agg.violations:
                return agg
            if s["status"] == "ok" and len(agg.samples) < 2:
                global CURRENT
                CURRENT = ctx
                try:
                    if ctx.feasible():
                        mi = ctx.model_inputs(ctx.model)
                        agg.samples.append(dict(decisions=len(s["trace"]), inputs={k: _show(v) for k, v in list(mi["values"].items())[:24]}, choices=mi["choices"], obligations=[f"{l}:{st}" for l, st in s["obligations"][:12]]))
                        if witness_every:
                            agg.witnesses.append(mi)
                except (Inconclusive, Infeasible):
                    pass
                finally:
                    CURRENT = None
    if not queue:
        return agg
    roots = list(queue)
    if nproc <= 1:
        for r in roots:
            agg.merge(explore_subtree(body, r, opts, deadline, witness_every))
        return agg
    import multiprocessing as mp
    import queue as _queue
    _POOL_BODY, _POOL_OPTS = body, opts
    mpctx = mp.get_context("fork")
    pending = deque(roots)
    results = _queue.Queue()
    inflight = 0
    chunk = opts.get("_chunk", 60)
    with mpctx.Pool(nproc) as pool:
        while pending or inflight:
            while pending and inflight < 3 * nproc:
                r = pending.pop()
                pool.apply_async(_pool_task, ((r, deadline, witness_every, chunk),), callback=results.put, error_callback=results.put)
                inflight += 1
            a = results.get()
            inflight -= 1
            if isinstance(a, BaseException):
                e = Aggregate()
                e.paths["engine_error"] += 1
                e.details[("engine_error", repr(a)[:160])] += 1
                a = e
            pending.extend(a.remaining)
            a.remaining = []
            agg.merge(a)
            if opts.get("_stop_on_violation") and agg.violations:
                pool.terminate()
                break
    return agg


def run_concrete(body, inputs=None, rng=None):
    """Run body once in concrete mode; returns (ctx, status, detail)."""
    global CURRENT
    ctx = ConcCtx(inputs, rng)
    CURRENT = ctx
    status, detail = "ok", ""
    try:
        try:
            body(ctx)
        except Infeasible as e:
            status, detail = "infeasible", str(e)
        except OutOfBound as e:
            status, detail = "out_of_bound", str(e)
        except Exception as e:
            status, detail = "exception", f"{type(e).__name__}: {e}\n" + traceback.format_exc(limit=-5)
    finally:
        CURRENT = None
    if status == "ok" and ctx.failures:
        status = "failed"
        detail = "; ".join(str(f) for f in ctx.failures[:5])
    return ctx, status, detail
