"""Connectives that work on Python/numpy bools and on symbolic booleans alike.
(`~True` is -2 in Python, which is truthy - never use `~` on a value that may be a plain bool.)"""
import numpy as np


def NOT(x):
    if isinstance(x, (bool, np.bool_, int)):
        return not bool(x)
    return ~x


def AND(*xs):
    r = True
    for x in xs:
        if isinstance(x, (bool, np.bool_)):
            if not x:
                return False
            continue
        r = x if r is True else (r & x)
    return r


def OR(*xs):
    r = False
    for x in xs:
        if isinstance(x, (bool, np.bool_)):
            if x:
                return True
            continue
        r = x if r is False else (r | x)
    return r


def IMPLIES(a, b):
    return OR(NOT(a), b)
