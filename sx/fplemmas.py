"""Bit-precise IEEE-754 binary64 lemmas (QF_FP), decided by z3.

Each lemma is asked negated; `unsat` = holds for every double in the stated
ranges; `sat` gives a concrete pair of doubles, which is replayed with Python
floats before it is reported.
"""
import multiprocessing as mp
import time

import z3

RNE = z3.RNE()
F64 = z3.Float64()


def _fp(name):
    return z3.FP(name, F64)


def _v(x):
    return z3.FPVal(x, F64)


def _in(x, lo, hi):
    return z3.And(z3.fpGEQ(x, _v(lo)), z3.fpLEQ(x, _v(hi)))


def lemma_L1():
    """fl(w + fl(-fl(1/n))) < w  for w in [-1e6,0], n in [1,1e6]."""
    w, n = _fp("w"), _fp("n")
    t = z3.fpNeg(z3.fpDiv(RNE, _v(1.0), n))
    r = z3.fpAdd(RNE, w, t)
    return [_in(w, -1e6, 0.0), _in(n, 1.0, 1e6), z3.Not(z3.fpLT(r, w))], ("w", "n"), lambda w, n: (w + (-(1.0 / n))) < w


def lemma_L2():
    """fl(w + t) < w  for w in [-1e6,0], t in [-1,-1e-9]."""
    w, t = _fp("w"), _fp("t")
    r = z3.fpAdd(RNE, w, t)
    return [_in(w, -1e6, 0.0), _in(t, -1.0, -1e-9), z3.Not(z3.fpLT(r, w))], ("w", "t"), lambda w, t: (w + t) < w


def lemma_L3():
    """x >= y (both finite) => fl(y - x) <= 0."""
    x, y = _fp("x"), _fp("y")
    r = z3.fpSub(RNE, y, x)
    fin = lambda a: z3.And(z3.Not(z3.fpIsNaN(a)), z3.Not(z3.fpIsInf(a)))  # noqa: E731
    return [fin(x), fin(y), z3.fpGEQ(x, y), z3.Not(z3.fpLEQ(r, _v(0.0)))], ("x", "y"), lambda x, y: (y - x) <= 0


def lemma_L4():
    """v1 <= v2 => fl(v1 + c) <= fl(v2 + c)  for |v|,|c| <= 1e5."""
    a, b, c = _fp("v1"), _fp("v2"), _fp("c")
    return [_in(a, -1e5, 1e5), _in(b, -1e5, 1e5), _in(c, -1e5, 1e5), z3.fpLEQ(a, b),
            z3.Not(z3.fpLEQ(z3.fpAdd(RNE, a, c), z3.fpAdd(RNE, b, c)))], ("v1", "v2", "c"), lambda v1, v2, c: (v1 + c) <= (v2 + c)


# L4 (monotonicity of a rounded shift) is not registered: neither z3 5.1 (300 s) nor cvc5 1.0.3 (600 s) decides it.
LEMMAS = {"L1": lemma_L1, "L2": lemma_L2, "L3": lemma_L3}


def _fpval_to_float(v):
    import struct
    # z3 FP numeral -> python float via its IEEE bit-vector
    bv = z3.simplify(z3.fpToIEEEBV(v))
    return struct.unpack(">d", bv.as_long().to_bytes(8, "big"))[0]


def _run(name, timeout_s, out):
    t0 = time.time()
    cons, names, conc = LEMMAS[name]()
    s = z3.SolverFor("QF_FP")
    s.set("timeout", int(timeout_s * 1000))
    s.add(*cons)
    r = s.check()
    res = dict(lemma=name, doc=LEMMAS[name].__doc__, verdict=str(r), seconds=round(time.time() - t0, 2))
    if r == z3.sat:
        m = s.model()
        vals = [_fpval_to_float(m.eval(_fp(n), model_completion=True)) for n in names]
        res["model"] = dict(zip(names, vals))
        res["reproduced"] = not conc(*vals)
    out.put(res)


def start(names=None, timeout_s=240):
    names = names or list(LEMMAS)
    ctx = mp.get_context("fork")
    q = ctx.Queue()
    procs = [ctx.Process(target=_run, args=(n, timeout_s, q)) for n in names]
    for p in procs:
        p.start()
    return dict(names=names, q=q, procs=procs, deadline=time.time() + timeout_s + 30, timeout_s=timeout_s)


def collect(h):
    res = []
    for _ in h["procs"]:
        try:
            res.append(h["q"].get(timeout=max(1, h["deadline"] - time.time())))
        except Exception:
            break
    for p in h["procs"]:
        p.join(timeout=1)
        if p.is_alive():
            p.kill()
    got = {r["lemma"] for r in res}
    for n in h["names"]:
        if n not in got:
            res.append(dict(lemma=n, doc=LEMMAS[n].__doc__, verdict="timeout", seconds=h["timeout_s"]))
    return sorted(res, key=lambda r: r["lemma"])


def run_all(names=None, timeout_s=240):
    return collect(start(names, timeout_s))
