"""Runs the units of a property harness, replays counterexamples, applies the
known-findings list, writes evidence, and sets the exit status.

exit 0: every obligation within the stated bounds discharged, no un-listed violation
exit 1: reproduced violation not in known_findings.json  (prints VIOLATION ...)
exit 2: harness error or inconclusive (never prints VIOLATION)
"""
import collections
import hashlib
import importlib
import inspect
import json
import os
import sys
import time
import traceback
from fractions import Fraction

import numpy as np

from . import engine
from .symnp import patched, object_livepoints, patched_extra_only

ROOT = os.path.dirname(os.path.dirname(os.path.abspath(__file__)))


class Unit:
    """One symbolic harness: a body explored over all its paths."""

    def __init__(self, name, body, modules=(), opts=None, expect_cover=(), mutants=(), twin_runs=40,
                 time_budget_s=600, object_lp=False, extra_patches=None, witness_every=0,
                 allow_out_of_bound=True, setup=None, nproc=None, describe="", heavy=False):
        self.name = name
        self.body = body
        self.modules = list(modules)
        self.opts = dict(opts or {})
        self.expect_cover = list(expect_cover)
        self.mutants = list(mutants)
        self.twin_runs = twin_runs
        self.time_budget_s = time_budget_s
        self.object_lp = object_lp
        self.extra_patches = extra_patches
        self.witness_every = witness_every
        self.allow_out_of_bound = allow_out_of_bound
        self.setup = setup
        self.nproc = nproc
        self.describe = describe
        self.heavy = heavy  # explored with engine-level parallelism, one unit at a time


def _resolve(qualname):
    parts = qualname.split(".")
    for i in range(len(parts), 0, -1):
        try:
            mod = importlib.import_module(".".join(parts[:i]))
        except ImportError:
            continue
        obj = mod
        for p in parts[i:]:
            obj = getattr(obj, p)
        return obj
    raise ImportError(qualname)


def function_hashes(names):
    out = []
    for q in names:
        try:
            obj = _resolve(q)
            if isinstance(obj, property):
                obj = obj.fget
            obj = getattr(obj, "__wrapped__", obj)
            src = inspect.getsource(obj)
            out.append(dict(function=q, sha256=hashlib.sha256(src.encode()).hexdigest()[:16], lines=src.count("\n")))
        except Exception as e:  # function vanished after an edit: report, the check will fail elsewhere
            out.append(dict(function=q, error=f"{type(e).__name__}: {e}"))
    return out


def _jsonable(x):
    if isinstance(x, Fraction):
        return float(x) if x.denominator != 1 else int(x)
    if isinstance(x, dict):
        return {str(k): _jsonable(v) for k, v in x.items()}
    if isinstance(x, (list, tuple)):
        return [_jsonable(v) for v in x]
    if isinstance(x, (np.integer,)):
        return int(x)
    if isinstance(x, (np.floating,)):
        return float(x)
    if isinstance(x, (str, int, float, bool)) or x is None:
        return x
    return repr(x)


def _inputs_to_json(inputs):
    vals = {}
    for k, v in inputs["values"].items():
        if isinstance(v, Fraction):
            vals[k] = [v.numerator, v.denominator]
        else:
            vals[k] = v
    return dict(values=vals, choices=inputs["choices"], kinds=inputs.get("kinds", {}))


def _inputs_from_json(d):
    vals = {}
    for k, v in d["values"].items():
        if isinstance(v, list):
            vals[k] = Fraction(v[0], v[1])
        else:
            vals[k] = v
    return dict(values=vals, choices=d.get("choices", {}), kinds=d.get("kinds", {}))


def load_known(pid):
    p = os.path.join(ROOT, "known_findings.json")
    if not os.path.exists(p):
        return []
    with open(p) as f:
        data = json.load(f)
    return [e for e in data.get("findings", []) if e.get("property") == pid and e.get("status") == "open"]


def match_known(known, unit, label, inputs, detail):
    for e in known:
        if e.get("unit") not in (None, unit):
            continue
        labs = e.get("labels") or ([e["label"]] if "label" in e else None)
        if labs is not None and not any(label == l or (l.endswith("*") and label.startswith(l[:-1])) for l in labs):
            continue
        where = e.get("where")
        if where:
            env = dict(v={k: (float(x) if isinstance(x, Fraction) else x) for k, x in (inputs or {}).get("values", {}).items()},
                       ch=(inputs or {}).get("choices", {}), detail=detail or "", label=label, e=e)
            try:
                if not eval(where, {"__builtins__": {"abs": abs, "min": min, "max": max, "len": len, "any": any, "all": all, "sorted": sorted}}, env):
                    continue
            except Exception:
                continue
        return e
    return None


class PropertyRun:
    def __init__(self, pid, tier, seed):
        self.pid, self.tier, self.seed = pid, tier, seed
        self.t0 = time.time()
        self.units = []
        self.violation_lines = []
        self.known_lines = []
        self.errors = []
        self.inconclusive = []
        self.unit_reports = []
        self.total = engine.Aggregate()
        self.twin_runs = 0
        self.twin_fail = 0
        self.witness_replays = 0
        self.mutants_run = 0
        self.mutants_caught = 0
        self.replays_written = []

    def export(self):
        return dict(total=self.total, violation_lines=self.violation_lines, known_lines=self.known_lines, errors=self.errors,
                    inconclusive=self.inconclusive, unit_reports=self.unit_reports, twin_runs=self.twin_runs, twin_fail=self.twin_fail,
                    witness_replays=self.witness_replays, mutants_run=self.mutants_run, mutants_caught=self.mutants_caught,
                    replays_written=self.replays_written)

    def absorb(self, d):
        self.total.merge(d["total"])
        for k in ("violation_lines", "errors", "inconclusive", "unit_reports", "replays_written"):
            getattr(self, k).extend(d[k])
        for l in d["known_lines"]:
            if l not in self.known_lines:
                self.known_lines.append(l)
        for k in ("twin_runs", "twin_fail", "witness_replays", "mutants_run", "mutants_caught"):
            setattr(self, k, getattr(self, k) + d[k])

    # -- context management for a unit ----------------------------------------
    def _contexts(self, unit, symbolic=True):
        import contextlib
        st = contextlib.ExitStack()
        if unit.setup is not None:
            st.enter_context(unit.setup(symbolic))
        if symbolic:
            mods = [importlib.import_module(m) if isinstance(m, str) else m for m in unit.modules]
            st.enter_context(patched(mods, unit.extra_patches))
            if unit.extra_patches:
                names = {m.__name__ for m in mods}
                rest = [importlib.import_module(m) for m in unit.extra_patches if m not in names]
                if rest:
                    st.enter_context(patched_extra_only(rest, unit.extra_patches))
            if unit.object_lp:
                st.enter_context(object_livepoints())
        elif unit.extra_patches:
            mods = [importlib.import_module(m) for m in unit.extra_patches]
            st.enter_context(patched_extra_only(mods, unit.extra_patches))
        return st

    def run_unit(self, unit):
        known = load_known(self.pid)
        rep = dict(unit=unit.name, describe=unit.describe)
        t0 = time.time()
        # 1. symbolic exploration
        with self._contexts(unit, True):
            agg = engine.explore(unit.body, unit.opts, nproc=unit.nproc, time_budget_s=unit.time_budget_s,
                                 witness_every=unit.witness_every)
        rep["paths"] = dict(agg.paths)
        rep["queries"] = dict(agg.nq)
        rep["solver_s"] = round(agg.solver_s, 3)
        rep["obligations"] = {f"{l}|{s}": n for (l, s), n in sorted(agg.obl.items())}
        rep["covers"] = dict(agg.covers)
        rep["max_decisions"] = agg.max_depth
        rep["opaque_values"] = agg.opaque
        if agg.details:
            rep["non_ok"] = {f"{k[0]}: {k[1]}": n for k, n in agg.details.most_common(8)}
        self.total.merge(agg)
        # sanity: reached, nothing inconclusive
        if agg.paths.get("engine_error"):
            self.errors.append(f"{unit.name}: engine error {list(agg.details)[:2]}")
        if agg.paths.get("inconclusive") or agg.unexplored:
            self.inconclusive.append(f"{unit.name}: {agg.paths.get('inconclusive', 0)} inconclusive paths, {agg.unexplored} unexplored subtrees")
        if agg.paths.get("out_of_bound") and not unit.allow_out_of_bound:
            self.inconclusive.append(f"{unit.name}: out-of-bound paths in a unit that does not allow them")
        if not agg.paths.get("ok") and not agg.violations:
            self.errors.append(f"{unit.name}: vacuous - no path reached the end")
        for lab in unit.expect_cover:
            if not agg.covers.get(lab):
                self.errors.append(f"{unit.name}: vacuous - cover point '{lab}' never reached")
        # 2. violations -> replay on the real code
        by_label = collections.OrderedDict()
        for v in agg.violations:
            by_label.setdefault(v["label"], []).append(v)
        for label, vs in by_label.items():
            self._handle_violations(unit, label, vs, known)
        # safety net: every obligation label that failed on some path must have been handled above
        lost = sorted({lab for (lab, st), n in agg.obl.items() if st == "violated" and n} - set(by_label))
        if lost:
            self.inconclusive.append(f"{unit.name}: {len(lost)} failed obligation label(s) without a stored counterexample (e.g. '{lost[0][:160]}')")
        # 3. witness replay (solver-chosen inputs through the unpatched code)
        wfail = 0
        for mi in agg.witnesses[:200]:
            with self._contexts(unit, False):
                ctx, status, detail = engine.run_concrete(unit.body, mi)
            self.witness_replays += 1
            if status in ("failed", "exception"):
                wfail += 1
                self._concrete_failure(unit, "witness", mi, ctx, status, detail, known)
        rep["witness_replays"] = len(agg.witnesses[:200])
        # 4. concrete twin on random inputs
        rng = np.random.default_rng(self.seed)
        tw_ok = tw_inf = 0
        for i in range(unit.twin_runs):
            with self._contexts(unit, False):
                ctx, status, detail = engine.run_concrete(unit.body, None, rng)
            self.twin_runs += 1
            if status == "ok":
                tw_ok += 1
            elif status in ("infeasible", "out_of_bound"):
                tw_inf += 1
            else:
                self.twin_fail += 1
                inputs = dict(values=dict(ctx.used), choices={})
                self._concrete_failure(unit, "twin", inputs, ctx, status, detail, known)
        rep["twin"] = dict(ok=tw_ok, skipped=tw_inf)
        # 5. vacuity: seeded wrong oracles must be refuted
        for mname in unit.mutants:
            self.mutants_run += 1

            def mbody(ctx, _m=mname):
                ctx.mutant = _m
                return unit.body(ctx)

            with self._contexts(unit, True):
                mopts = dict(unit.opts, _stop_on_violation=True)
                mopts["timeout_ms"] = min(10000, mopts.get("timeout_ms", 20000))
                magg = engine.explore(mbody, mopts, nproc=unit.nproc, time_budget_s=min(120, unit.time_budget_s))
            if magg.violations:
                self.mutants_caught += 1
            else:
                self.errors.append(f"{unit.name}: vacuity guard - wrong oracle '{mname}' was not refuted")
        rep["wall_s"] = round(time.time() - t0, 2)
        rep["samples"] = agg.samples[:2]
        self.unit_reports.append(rep)
        return agg

    def _replay_path(self, unit, label, inputs):
        d = os.path.join(ROOT, "replays", self.pid)
        os.makedirs(d, exist_ok=True)
        payload = dict(property=self.pid, unit=unit.name, tier=self.tier, label=label, inputs=_inputs_to_json(inputs))
        h = hashlib.sha256(json.dumps(payload, sort_keys=True, default=str).encode()).hexdigest()[:12]
        p = os.path.join(d, f"{unit.name}-{h}.json")
        with open(p, "w") as f:
            json.dump(payload, f, indent=1, default=str)
        self.replays_written.append(p)
        return p

    def _handle_violations(self, unit, label, vs, known):
        reproduced = None
        tried = 0
        last = None
        for v in vs[:20]:
            if v["inputs"] is None:
                continue
            tried += 1
            with self._contexts(unit, False):
                ctx, status, detail = engine.run_concrete(unit.body, v["inputs"])
            last = (status, detail)
            if status in ("failed", "exception") and self._conc_label(unit, label, ctx, status, detail, v["inputs"], known) is not None:
                reproduced = (v, ctx, status, detail)
                break
        if reproduced is None:
            # solver models sit on the boundary of the violating region (e.g. exactly at a tolerance), where the floating-point
            # replay can fall on the other side: confirm with inputs moved slightly into the region.  A perturbed input that
            # fails on the real code is a genuine failing input; it is reported as such.
            for v in [x for x in vs[:5] if x["inputs"] is not None]:
                vals = v["inputs"].get("values", {})
                kinds = v["inputs"].get("kinds", {})
                reals = [n for n in vals if kinds.get(n) == "real" and vals[n] != 0]
                trials = []
                for f in (Fraction(1, 2), Fraction(3, 4), Fraction(9, 10), Fraction(99, 100), Fraction(101, 100), Fraction(11, 10), Fraction(2)):
                    for n in reals[:12]:
                        trials.append({n: f})
                for sc in trials:
                    inp = dict(v["inputs"])
                    inp["values"] = {n: (Fraction(x) * sc[n] if n in sc else x) for n, x in vals.items()}
                    with self._contexts(unit, False):
                        ctx, status, detail = engine.run_concrete(unit.body, inp)
                    tried += 1
                    if status in ("failed", "exception") and self._conc_label(unit, label, ctx, status, detail, inp, known) is not None:
                        v2 = dict(v)
                        v2["inputs"] = inp
                        reproduced = (v2, ctx, status, detail)
                        vs = [v2] + list(vs)
                        break
                if reproduced is not None:
                    break
        if reproduced is None:
            self.inconclusive.append(
                f"{unit.name}: solver counterexample for '{label}' did not reproduce on the real code in {tried} models (last: {last}); symbolic detail: {vs[0].get('detail','')[:300]}"
            )
            return
        v, ctx, status, detail = reproduced
        # there may be several distinct known/unknown cases under one label: classify each reproduced model
        seen_known = set()
        reported = False
        for v2 in vs[:20]:
            if v2["inputs"] is None:
                continue
            with self._contexts(unit, False):
                ctx2, st2, det2 = engine.run_concrete(unit.body, v2["inputs"])
            if st2 not in ("failed", "exception"):
                continue
            clabel = self._conc_label(unit, label, ctx2, st2, det2, v2["inputs"], known)
            if clabel is None:
                continue
            k = match_known(known, unit.name, clabel, v2["inputs"], det2)
            if k is not None:
                line = f"KNOWN-FINDING: property={self.pid} {k['id']}: {k['summary']}"
                if line not in self.known_lines:
                    self.known_lines.append(line)
                continue
            if not reported:
                p = self._replay_path(unit, clabel, v2["inputs"])
                self.violation_lines.append((f"VIOLATION property={self.pid} replay={p}", f"unit={unit.name} label={clabel} {det2[:400]}"))
                reported = True

    def _conc_label(self, unit, label, ctx2, st2, det2, inputs, known):
        """The label under which a concrete replay reproduces the failure of obligation `label`, or None.  A replay that only
        fails *other* obligations which are listed known findings (they fail on every path of such a unit) is not a reproduction
        of this one - and must not lend it their 'known' status."""
        if st2 == "exception":
            return "uncaught:" + det2.split(":")[0]
        fl = [f["label"] for f in ctx2.failures]
        if label in fl:
            return label
        others = [l for l in fl if match_known(known, unit.name, l, inputs, det2) is None]
        return others[0] if others else None

    def _concrete_failure(self, unit, origin, inputs, ctx, status, detail, known):
        if status == "exception":
            labels = ["uncaught:" + detail.split(":")[0]]
        else:
            labels = [f["label"] for f in ctx.failures] or ["?"]
        label = None
        for l in labels:          # every failed obligation of the run: a listed one must not hide an unlisted one behind it
            k = match_known(known, unit.name, l, inputs, detail)
            if k is not None:
                line = f"KNOWN-FINDING: property={self.pid} {k['id']}: {k['summary']}"
                if line not in self.known_lines:
                    self.known_lines.append(line)
            elif label is None:
                label = l
        if label is None:
            return
        if any(unit.name in l[1] and f"label={label} " in l[1] for l in self.violation_lines):
            return
        p = self._replay_path(unit, label, inputs)
        self.violation_lines.append((f"VIOLATION property={self.pid} replay={p}", f"unit={unit.name} origin={origin} label={label} {detail[:400]}"))

    # -- wrap up -----------------------------------------------------------------
    def finish(self, harness_mod, extra_explanation=""):
        wall = time.time() - self.t0
        tot = self.total
        obligations = tot.n_obl("unsat", "concrete", "violated", "unknown")
        discharged = tot.n_obl("unsat", "concrete")
        solver_discharged = tot.n_obl("unsat")
        bounds = getattr(harness_mod, "BOUNDS", {}).get(self.tier, {})
        explanation = (
            f"Bounded SMT-based symbolic execution of the real nessai functions (engine sx: re-execution with forking on "
            f"symbolic truth values, z3 {engine.z3.get_version_string()}). Within the bounds {json.dumps(bounds)} every feasible path of every unit was "
            f"explored and each obligation was decided by the solver for ALL values of the symbolic inputs on that path; "
            f"nothing is claimed outside these bounds. {getattr(harness_mod, 'SCOPE', '')} {extra_explanation}"
        ).strip()
        ev = dict(
            property_id=self.pid,
            tier=self.tier,
            seed=self.seed,
            level="other",
            wall_s=round(wall, 2),
            violations=len(self.violation_lines),
            assumptions=list(getattr(harness_mod, "ASSUMPTIONS", [])),
            coverage=dict(
                explanation=explanation,
                technique="bounded symbolic execution of the real Python code + z3 (sat = counterexample, replayed on the unpatched code)",
                bounds=bounds,
                outside_claim=list(getattr(harness_mod, "OUTSIDE", [])),
                functions_encoded=function_hashes(getattr(harness_mod, "FUNCTIONS", [])),
                evaluations=tot.n_paths,
                distinct_nontrivial=tot.paths.get("ok", 0),
                rule="one evaluation = one feasible symbolic path (distinct decision trace) of a unit; counted as non-trivial when it ran to the end of the harness ('ok'), i.e. all its obligations were posed to the solver",
                paths=dict(tot.paths),
                obligations=obligations,
                discharged=discharged,
                discharged_by_solver=solver_discharged,
                solver_queries=dict(tot.nq),
                solver_seconds=round(tot.solver_s, 2),
                checker_cmd=f"./check {self.pid} --tier {self.tier}",
                trusted_base=["z3 (wheel 5.1.0)", "sx engine and numpy shim (/verif/sx), validated per run by witness replay and concrete twin runs", "CPython, numpy object-dtype array semantics"],
                witness_replays_on_real_code=self.witness_replays,
                concrete_twin_runs=self.twin_runs,
                vacuity_mutants_run=self.mutants_run,
                vacuity_mutants_refuted=self.mutants_caught,
                known_findings_reported=self.known_lines,
                inconclusive=self.inconclusive,
                harness_errors=self.errors,
                units=self.unit_reports,
                samples=[s for r in self.unit_reports for s in r.get("samples", [])][:6] or [{"note": "no completed path"}],
                extra=getattr(self, "extra", None),
                exhaustive=False,
            ),
        )
        os.makedirs(os.path.join(ROOT, "evidence"), exist_ok=True)
        with open(os.path.join(ROOT, "evidence", f"{self.pid}.json"), "w") as f:
            json.dump(_jsonable(ev), f, indent=1)
        for l in self.known_lines:
            print(l)
        print(f"[{self.pid}/{self.tier}] units={len(self.unit_reports)} paths={dict(tot.paths)} obligations={obligations} discharged={discharged} "
              f"queries={dict(tot.nq)} solver_s={tot.solver_s:.1f} twin={self.twin_runs} witness={self.witness_replays} "
              f"mutants={self.mutants_caught}/{self.mutants_run} wall={wall:.1f}s")
        if self.violation_lines:
            for line, extra in self.violation_lines:
                print(line)
                print("  " + extra.replace("\n", "\n  "), file=sys.stderr)
            return 1
        if self.errors or self.inconclusive:
            for e in self.errors:
                print(f"HARNESS-ERROR: {e}", file=sys.stderr)
            for e in self.inconclusive:
                print(f"INCONCLUSIVE: {e}", file=sys.stderr)
            return 2
        return 0


_PAR_UNITS = None
_PAR_ARGS = None


def _par_task(i):
    pid, tier, seed = _PAR_ARGS
    run = PropertyRun(pid, tier, seed)
    try:
        run.run_unit(_PAR_UNITS[i])
    except Exception as e:  # noqa
        run.errors.append(f"{_PAR_UNITS[i].name}: harness crashed: {type(e).__name__}: {e}\n{traceback.format_exc(limit=-4)}")
    return run.export()


def _child(i, conn):
    try:
        conn.send(_par_task(i))
    except BaseException as e:  # noqa
        try:
            conn.send(dict(_crash=f"{type(e).__name__}: {e}"))
        except Exception:
            pass
    finally:
        conn.close()


def run_units_parallel(run, units, width):
    """Run every unit in its own forked process under a hard wall-clock cap
    (z3 can overrun its own timeout; a stuck unit is killed and reported as
    inconclusive, never as success).  `width` units run concurrently."""
    global _PAR_UNITS, _PAR_ARGS
    import multiprocessing as mp
    _PAR_UNITS, _PAR_ARGS = units, (run.pid, run.tier, run.seed)
    ctx = mp.get_context("fork")
    if width > 1:
        for u in units:
            if not u.heavy:
                u.nproc = 1
    pending = [i for i in range(len(units)) if not units[i].heavy] + [i for i in range(len(units)) if units[i].heavy]
    running = {}
    results = {}
    while pending or running:
        while pending and len(running) < width:
            if units[pending[0]].heavy and running:
                break  # heavy units run alone
            i = pending.pop(0)
            pc, cc = ctx.Pipe(duplex=False)
            p = ctx.Process(target=_child, args=(i, cc))
            p.daemon = False
            p.start()
            cc.close()
            running[i] = (p, pc, time.time() + units[i].time_budget_s * 1.5 + 180)
            if units[i].heavy:
                break
        for i, (p, pc, deadline) in list(running.items()):
            got = None
            if pc.poll(0.05):
                try:
                    got = pc.recv()
                except EOFError:
                    got = dict(_crash="child exited without a result")
            elif not p.is_alive():
                got = dict(_crash=f"child died (exit code {p.exitcode})")
            elif time.time() > deadline:
                _kill_tree(p)
                got = dict(_timeout=True)
            if got is not None:
                p.join(timeout=5)
                if p.is_alive():
                    _kill_tree(p)
                del running[i]
                results[i] = got
    for i in range(len(units)):
        d = results[i]
        if "_timeout" in d:
            run.inconclusive.append(f"{units[i].name}: exceeded the hard wall-clock cap and was killed (solver overran its timeout)")
        elif "_crash" in d:
            run.errors.append(f"{units[i].name}: {d['_crash']}")
        else:
            run.absorb(d)


def _kill_tree(p):
    import signal
    try:
        import subprocess
        out = subprocess.run(["pgrep", "-P", str(p.pid)], capture_output=True, text=True).stdout.split()
        for c in out:
            try:
                os.kill(int(c), signal.SIGKILL)
            except OSError:
                pass
    except Exception:
        pass
    try:
        p.kill()
    except Exception:
        pass


def replay_file(path):
    with open(path) as f:
        payload = json.load(f)
    pid = payload["property"]
    mod = importlib.import_module(f"harness.{HARNESS_MODULES[pid]}")
    units = {u.name: u for u in mod.units(payload.get("tier", "quick"))}
    unit = units[payload["unit"]]
    run = PropertyRun(pid, payload.get("tier", "quick"), 0)
    with run._contexts(unit, False):
        ctx, status, detail = engine.run_concrete(unit.body, _inputs_from_json(payload["inputs"]))
    print(f"replay {path}: status={status}")
    print(detail)
    for lab, st in ctx.obligations:
        if st != "ok":
            print(f"  obligation {lab}: {st}")
    return 1 if status in ("failed", "exception") else 0


HARNESS_MODULES = {}


def main(argv):
    import argparse
    ap = argparse.ArgumentParser()
    ap.add_argument("pid")
    ap.add_argument("--tier", default=os.environ.get("VERIF_TIER", "quick"))
    ap.add_argument("--seed", type=int, default=int(os.environ.get("VERIF_SEED", "0") or 0))
    ap.add_argument("--replay")
    ap.add_argument("--unit", action="append")
    a = ap.parse_args(argv)
    sys.path.insert(0, ROOT)
    from harness import REGISTRY
    HARNESS_MODULES.update(REGISTRY)
    if a.replay:
        return replay_file(a.replay)
    if a.pid not in REGISTRY:
        print(f"no harness for {a.pid}", file=sys.stderr)
        return 2
    mod = importlib.import_module(f"harness.{REGISTRY[a.pid]}")
    run = PropertyRun(a.pid, a.tier, a.seed)
    try:
        if hasattr(mod, "pre"):
            mod.pre(run, a.tier)
        us = [u for u in mod.units(a.tier) if not a.unit or u.name in a.unit]
        width = (int(os.environ.get("VERIF_NPROC", "0")) or min(16, os.cpu_count() or 1)) if getattr(mod, "PARALLEL_UNITS", False) else 1
        run_units_parallel(run, us, width)
        extra = mod.post(run, a.tier) if hasattr(mod, "post") else ""
    except Exception as e:
        traceback.print_exc()
        run.errors.append(f"harness crashed: {type(e).__name__}: {e}")
        extra = ""
    return run.finish(mod, extra or "")
