"""File-system model for crash-point exploration (C11).

The real nessai checkpoint / weights code is executed against stand-ins for
`os`, `shutil`, `open`, `pickle` and `torch`.  Every operation that touches the
disk calls `tick()`; a crash is a BaseException raised *before* operation
number k, where k is a symbolic integer (symbolic mode: the solver decides
which k are feasible) or a concrete one (replay).

Two back ends share this interface:
  ModelFS - dictionary  path -> complete(content) | torn(nbytes)   (symbolic mode)
  RealFS  - a real temporary directory, real pickle / torch serialisation,
            real loaders raising their real exceptions                (concrete mode)
"""
import io
import os as _os
import pickle as _pickle
import shutil as _shutil
import tempfile


class Crash(BaseException):
    """The process died here."""


N_CHUNKS = 4   # first chunk is a 2-byte prefix (loaders fail differently on tiny files)


class _Base:
    def __init__(self, crash_at=None):
        self.crash_at = crash_at
        self.ops = 0
        self.log = []
        self.armed = True

    def tick(self, what):
        i = self.ops
        self.ops += 1
        self.log.append(what)
        if self.armed and self.crash_at is not None and bool(self.crash_at == i):
            self.armed = False
            self.crashed_before = what
            raise Crash(f"killed before op {i}: {what}")

    def disarm(self):
        self.armed = False


class ModelFS(_Base):
    def __init__(self, crash_at=None):
        super().__init__(crash_at)
        self.files = {}

    # state helpers
    def put(self, path, content):
        self.files[path] = ("complete", content)

    def put_torn(self, path, nbytes=1):
        self.files[path] = ("torn", nbytes)

    def state(self, path):
        return self.files.get(path, ("absent", None))

    # operations
    def exists(self, path):
        self.tick(f"exists {_b(path)}")
        return path in self.files

    def move(self, src, dst):
        self.tick(f"move {_b(src)} -> {_b(dst)}")
        if src not in self.files:
            raise FileNotFoundError(src)
        self.files[dst] = self.files.pop(src)
        return dst

    def copyfile(self, src, dst):
        self.tick(f"copy-open {_b(dst)}")
        if src not in self.files:
            raise FileNotFoundError(src)
        self.files[dst] = ("torn", 0)
        self.tick(f"copy-write {_b(dst)}")
        self.files[dst] = self.files[src]
        return dst

    def remove(self, path):
        self.tick(f"remove {_b(path)}")
        if path not in self.files:
            raise FileNotFoundError(path)
        del self.files[path]

    def makedirs(self, path, exist_ok=False):
        return None

    def glob(self, pattern):
        import fnmatch
        return sorted(p for p in self.files if fnmatch.fnmatch(p, pattern))

    def open(self, path, mode="r", *a, **k):
        if "w" in mode:
            self.tick(f"open-w {_b(path)}")
            self.files[path] = ("torn", 0)
            return _ModelWriter(self, path)
        self.tick(f"open-r {_b(path)}")
        if path not in self.files:
            raise FileNotFoundError(path)
        return _ModelReader(self, path)

    # serialisation
    def dump(self, content, fileobj):
        fileobj.write_payload(content)

    def load(self, fileobj, kind):
        st, c = self.files[fileobj.path]
        if st == "complete":
            return c
        if c == 0:
            raise EOFError("Ran out of input")
        if kind == "pickle":
            raise _pickle.UnpicklingError("pickle data was truncated")
        if c == 1:
            # a 1-3 byte file is not recognised as a zip archive: torch falls back to the legacy unpickler
            raise _pickle.UnpicklingError("invalid load key")
        raise RuntimeError("PytorchStreamReader failed reading zip archive: failed finding central directory")

    def save_path(self, content, path):
        w = self.open(path, "wb")
        try:
            w.write_payload(content)
        finally:
            w.close_after_exception_or_not()

    def load_path(self, path, kind):
        self.tick(f"open-r {_b(path)}")
        if path not in self.files:
            raise FileNotFoundError(path)
        return self.load(_ModelReader(self, path), kind)

    def cleanup(self):
        pass


class _ModelWriter:
    def __init__(self, fs, path):
        self.fs, self.path = fs, path
        self.pending = None
        self.closed = False

    def write_payload(self, content):
        for i in range(N_CHUNKS):
            self.fs.tick(f"write {_b(self.path)} chunk {i}")
            self.fs.files[self.path] = ("torn", i + 1)
        self.pending = content

    def __enter__(self):
        return self

    def __exit__(self, et, ev, tb):
        if et is None:
            self.close()
        return False

    def close(self):
        if self.closed:
            return
        self.fs.tick(f"close {_b(self.path)}")
        self.closed = True
        if self.pending is not None:
            self.fs.files[self.path] = ("complete", self.pending)

    def close_after_exception_or_not(self):
        if self.pending is not None and not self.closed:
            self.close()


class _ModelReader:
    def __init__(self, fs, path):
        self.fs, self.path = fs, path

    def __enter__(self):
        return self

    def __exit__(self, *a):
        return False


class RealFS(_Base):
    """Same interface on a real temporary directory with the real serialisers."""

    def __init__(self, crash_at=None):
        super().__init__(crash_at)
        self.root = tempfile.mkdtemp(prefix="verif_c11_")

    def _p(self, path):
        return _os.path.join(self.root, path.lstrip("/"))

    def put(self, path, content, kind="pickle"):
        p = self._p(path)
        _os.makedirs(_os.path.dirname(p), exist_ok=True)
        with open(p, "wb") as f:
            f.write(_ser(content, kind))

    def put_torn(self, path, nbytes=1, kind="pickle", content=None):
        p = self._p(path)
        _os.makedirs(_os.path.dirname(p), exist_ok=True)
        data = _ser(content if content is not None else {"torn": True}, kind)
        with open(p, "wb") as f:
            cuts = [0, min(2, len(data))] + [(len(data) * (i + 1)) // (N_CHUNKS - 1) for i in range(N_CHUNKS - 1)]
            f.write(data[: cuts[min(nbytes, N_CHUNKS - 1)]])

    def state(self, path):
        return ("present", None) if _os.path.exists(self._p(path)) else ("absent", None)

    def exists(self, path):
        self.tick(f"exists {_b(path)}")
        return _os.path.exists(self._p(path))

    def move(self, src, dst):
        self.tick(f"move {_b(src)} -> {_b(dst)}")
        _shutil.move(self._p(src), self._p(dst))
        return dst

    def copyfile(self, src, dst):
        self.tick(f"copy-open {_b(dst)}")
        with open(self._p(src), "rb") as f:
            data = f.read()
        with open(self._p(dst), "wb") as g:
            g.flush()
            self.tick(f"copy-write {_b(dst)}")
            g.write(data)
        return dst

    def remove(self, path):
        self.tick(f"remove {_b(path)}")
        _os.remove(self._p(path))

    def makedirs(self, path, exist_ok=False):
        _os.makedirs(self._p(path), exist_ok=True)

    def glob(self, pattern):
        import glob
        n = len(self.root)
        return sorted(p[n:] for p in glob.glob(self._p(pattern)))

    def open(self, path, mode="r", *a, **k):
        if "w" in mode:
            self.tick(f"open-w {_b(path)}")
            _os.makedirs(_os.path.dirname(self._p(path)), exist_ok=True)
            return _RealWriter(self, path, open(self._p(path), "wb"))
        self.tick(f"open-r {_b(path)}")
        return open(self._p(path), "rb")

    def dump(self, content, fileobj, kind="pickle"):
        fileobj.write_payload(content, kind)

    def load(self, fileobj, kind):
        if kind == "pickle":
            return _pickle.load(fileobj)
        import torch
        return _from_torch(torch.load(fileobj))

    def save_path(self, content, path, kind="torch"):
        w = self.open(path, "wb")
        try:
            w.write_payload(content, kind)
            w.close()
        except BaseException:
            w.f.close()
            raise

    def load_path(self, path, kind):
        self.tick(f"open-r {_b(path)}")
        if kind == "torch":
            import torch
            return _from_torch(torch.load(self._p(path)))
        with open(self._p(path), "rb") as f:
            return _pickle.load(f)

    def cleanup(self):
        _shutil.rmtree(self.root, ignore_errors=True)


class _RealWriter:
    def __init__(self, fs, path, f):
        self.fs, self.path, self.f = fs, path, f

    def write_payload(self, content, kind="pickle"):
        data = _ser(content, kind)
        n = len(data)
        cuts = [0, min(2, n)] + [(n * (i + 1)) // (N_CHUNKS - 1) for i in range(N_CHUNKS - 1)]
        for i in range(N_CHUNKS):
            try:
                self.fs.tick(f"write {_b(self.path)} chunk {i}")
            except Crash:
                self.f.flush()
                raise
            end = cuts[i + 1]
            if i == N_CHUNKS - 1:
                # the final byte reaches the disk only at close(): a kill before close leaves the file incomplete
                self._tail = data[end - 1:end]
                end -= 1
            self.f.write(data[cuts[i]:end])
            self.f.flush()

    def __enter__(self):
        return self

    def __exit__(self, et, ev, tb):
        if et is None:
            self.close()
        else:
            self.f.close()
        return False

    def close(self):
        if not self.f.closed:
            self.fs.tick(f"close {_b(self.path)}")
            self.f.write(getattr(self, "_tail", b""))
            self.f.close()


def _ser(content, kind):
    if kind == "torch":
        import torch
        buf = io.BytesIO()
        torch.save(_to_torch(content), buf)
        return buf.getvalue()
    return _pickle.dumps(content)


def _to_torch(content):
    import torch
    return {"version": torch.tensor(float(content["version"])), "pad": torch.zeros(8, 8)}


def _from_torch(sd):
    return {"version": int(sd["version"].item())}


def _b(path):
    return _os.path.basename(path.rstrip("/")) if "/" in path else path


# ---------------------------------------------------------------------------
# stand-ins bound to names inside nessai modules
# ---------------------------------------------------------------------------

class FakePath:
    def __init__(self, fs):
        self._fs = fs

    def exists(self, p):
        return self._fs.exists(p)

    def __getattr__(self, name):
        return getattr(_os.path, name)


class FakeOS:
    def __init__(self, fs):
        self._fs = fs
        self.path = FakePath(fs)

    def makedirs(self, p, exist_ok=False):
        return self._fs.makedirs(p, exist_ok)

    def remove(self, p):
        return self._fs.remove(p)

    def __getattr__(self, name):
        return getattr(_os, name)


class FakeShutil:
    def __init__(self, fs):
        self._fs = fs

    def move(self, a, b):
        return self._fs.move(a, b)

    def copyfile(self, a, b):
        return self._fs.copyfile(a, b)

    def __getattr__(self, name):
        return getattr(_shutil, name)


class FakeGlob:
    def __init__(self, fs):
        self._fs = fs

    def glob(self, pattern):
        return self._fs.glob(pattern)


class FakePickle:
    """`pickle` as seen by safe_file_dump / BaseNestedSampler.resume."""
    UnpicklingError = _pickle.UnpicklingError
    PickleError = _pickle.PickleError

    def __init__(self, fs, snapshot):
        self._fs, self._snapshot = fs, snapshot

    def dump(self, data, fileobj, *a, **k):
        self._fs.dump(self._snapshot(data), fileobj)

    def load(self, fileobj, *a, **k):
        return self._fs.load(fileobj, "pickle")


class FakeTorch:
    """`torch` as seen by FlowModel.save_weights / load_weights."""

    def __init__(self, fs, real_torch=None):
        self._fs = fs
        self._real = real_torch

    def save(self, obj, path, *a, **k):
        if isinstance(self._fs, RealFS):
            return self._fs.save_path(obj, path, "torch")
        return self._fs.save_path(obj, path)

    def load(self, path, *a, **k):
        return self._fs.load_path(path, "torch")

    def __getattr__(self, name):
        import torch
        return getattr(torch, name)
