#!/bin/bash
# Builds the overlay venv used by every check (offline, from the wheelhouse).
set -e
HERE="$(cd "$(dirname "${BASH_SOURCE[0]}")" && pwd)"
if [ ! -x "$HERE/.venv/bin/python" ]; then
  /venv/bin/python -m venv "$HERE/.venv"
fi
SP="$("$HERE/.venv/bin/python" -c 'import sysconfig; print(sysconfig.get_paths()["purelib"])')"
cat > "$SP/verif_overlay.pth" <<PTH
import site; site.addsitedir('/venv/lib/python3.12/site-packages')
/repo
PTH
"$HERE/.venv/bin/python" -c "import z3" 2>/dev/null || \
  "$HERE/.venv/bin/pip" install -q --no-index --find-links /opt/veriftools/wheels z3-solver cvc5
"$HERE/.venv/bin/python" -c "import z3, numpy, nessai; print('setup ok: z3', z3.get_version_string(), 'numpy', numpy.__version__)"
