#!/bin/bash
# usage: seed_eval.sh <property> <seed dir>   -- applies patch to /repo, runs demo + check, reverts
P=$1; D=$2; T=${3:-quick}
cd /repo || exit 9
git diff --quiet || { echo "repo dirty"; exit 9; }
git apply --check "$D/patch.diff" || { echo "patch does not apply"; exit 9; }
git apply "$D/patch.diff"
( cd ${DEMO_CWD:-$D} && PYTHONPATH=/repo timeout 600 /venv/bin/python $D/demo.py >/tmp/seed_demo.out 2>&1 ); DEMO_BAD=$?
( cd /verif && timeout 1500 ./check $P --tier $T >/tmp/seed_check.out 2>/tmp/seed_check.err ); CHK=$?
git checkout -- .
( cd ${DEMO_CWD:-$D} && PYTHONPATH=/repo timeout 600 /venv/bin/python $D/demo.py >/dev/null 2>&1 ); DEMO_OK=$?
echo "seed=$D demo_with_patch=$DEMO_BAD demo_clean=$DEMO_OK check_exit=$CHK"
grep -h "^VIOLATION\|^KNOWN" /tmp/seed_check.out | head -3
grep -h "label=" /tmp/seed_check.err | head -2 | cut -c1-300
grep -h "HARNESS-ERROR\|INCONCLUSIVE" /tmp/seed_check.err | head -2 | cut -c1-300
