"""Developer probe: explore one unit single-process with a time cap and print stats.

usage: probe_unit.py <harness module> <tier> <unit name> [seconds]
"""
import importlib
import sys
import time

sys.path.insert(0, "/verif")
from sx import engine  # noqa: E402
from sx.runner import PropertyRun  # noqa: E402

h = importlib.import_module("harness." + sys.argv[1])
u = [u for u in h.units(sys.argv[2]) if u.name == sys.argv[3]][0]
budget = float(sys.argv[4]) if len(sys.argv) > 4 else 60
run = PropertyRun(h.ID, sys.argv[2], 0)
t = time.time()
with run._contexts(u, True):
    agg = engine.explore(u.body, u.opts, nproc=1, time_budget_s=budget)
print(dict(agg.paths), dict(agg.nq), "solver_s", round(agg.solver_s, 2), "wall", round(time.time() - t, 2), "unexplored", agg.unexplored, "maxdepth", agg.max_depth)
print(dict(agg.details))
print({k: v for k, v in agg.obl.items() if k[1] not in ("unsat", "concrete")})
for v in agg.violations[:3]:
    print("VIOL", v["label"], v["detail"][:1500], v["inputs"])
