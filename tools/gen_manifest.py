"""Regenerates /verif/MANIFEST.json from the harness registry (run after adding a harness)."""
import importlib
import json
import os
import sys

ROOT = os.path.dirname(os.path.dirname(os.path.abspath(__file__)))
sys.path.insert(0, ROOT)
from harness import REGISTRY  # noqa: E402

NOT_APPLICABLE = {
    "C06": "Statistical calibration over seeds of whole runs with trained torch flows: there is no bounded symbolic encoding of training, RNG streams or a distribution-level assertion.",
    "C14": "Bit-identical whole-program reproducibility depends on numpy/torch RNG state and float32 kernels behind C boundaries; only its chunk/pool-independence kernel is decidable and that is what the C10 check decides.",
    "C19": "The round trip goes through the json and h5py C encoders/decoders and the file system; the Python part (NessaiJSONEncoder.default) carries none of the claimed equalities on its own.",
    "C20": "'Runs to completion or is rejected up front' for every option is a whole-program liveness claim over real flows and random acceptance; symbolic execution with stubs can neither bound the population loops nor exercise the real option paths.",
}
PENDING = "harness not built yet in this round (planned in DESIGN.md section 6); not claimed until a deciding check exists"

ALL = [f"C{i:02d}" for i in range(1, 21)]


def main():
    checks = []
    for pid in sorted(REGISTRY):
        mod = importlib.import_module(f"harness.{REGISTRY[pid]}")
        checks.append(dict(
            property_id=pid,
            quick_cmd=f"./check {pid} --tier quick",
            thorough_cmd=f"./check {pid} --tier thorough",
            evidence_file=f"/verif/evidence/{pid}.json",
            replay_cmd_template=f"./check {pid} --replay {{path}}",
            engine="sx",
            level_claimed=dict(
                category="other",
                text=getattr(mod, "LEVEL_TEXT", "") or (
                    "Bounded symbolic verification: the real nessai functions named in the evidence are executed on symbolic inputs, every feasible path within the stated "
                    "bounds is explored, and each obligation is decided by z3 for all values on that path (unsat = holds; sat = concrete counterexample, replayed on the "
                    "unpatched code before it is reported). Stronger than any sampling inside the bounds, silent outside them; not an unbounded proof."),
                design_ref=f"DESIGN.md section 6, {pid}",
            ),
            level_note=("Trusted base: z3, the sx engine and numpy shim (validated on every run by witness replay of solver-chosen inputs through the unpatched code, "
                        "concrete twin runs of the same harness, and seeded wrong oracles that must be refuted). Bounds: " + json.dumps(mod.BOUNDS["quick"]) +
                        " (quick) / " + json.dumps(mod.BOUNDS["thorough"]) + " (thorough). Assumptions: " + "; ".join(mod.ASSUMPTIONS) +
                        ". Outside the claim: " + "; ".join(mod.OUTSIDE) + "."),
            technique=getattr(mod, "TECHNIQUE", "symbolic execution of the real Python code (re-execution, fork on symbolic truth values) + z3 SMT solving per path; counterexamples replayed concretely"),
        ))
    na = []
    for pid in ALL:
        if pid in REGISTRY:
            continue
        na.append(dict(property_id=pid, reason=NOT_APPLICABLE.get(pid, PENDING)))
    m = dict(
        version=1,
        setup_cmd="bash /verif/setup.sh",
        hooks=dict(
            guard="NESSAI_VERIF",
            enable="no source hooks are needed: checks import /repo's working tree directly and rebind module-level names (np, logsumexp, logger, tqdm, ...) inside the imported nessai modules for the lifetime of the checker process",
            baseline_off_cmd="cd /repo && /venv/bin/python -m pytest -ra -q -p no:cacheprovider --timeout=900 --continue-on-collection-errors",
            source_commits=[],
            add_only=True,
        ),
        engines=[dict(name="sx", path="/verif/sx", serves_properties=sorted(REGISTRY),
                      kind_free_text="bounded symbolic execution of the real Python functions by re-execution (fork on symbolic truth values; numpy object arrays as containers; log-semiring and dual-number value domains), z3 decides path feasibility and every obligation; counterexamples are replayed on the unpatched code")],
        checks=checks,
        not_applicable=na,
        notes="Design, bounds, findings and seeded-change results: DESIGN.md. Known findings: known_findings.json. Exit codes: 0 held, 1 reproduced violation (VIOLATION line), 2 harness error / inconclusive.",
    )
    with open(os.path.join(ROOT, "MANIFEST.json"), "w") as f:
        json.dump(m, f, indent=1)
    print(f"MANIFEST.json: {len(checks)} checks, {len(na)} not applicable")


if __name__ == "__main__":
    main()
