#!/bin/bash
# usage: seed2_prep.sh <ID> <j>  -- lays out round-2 sub-agent output (change-j.diff, demo-j.py, notes.md) as a seed dir for seed_eval.sh
ID=$1; J=$2; S=${SEEDROOT:-/tmp/seed2}/out/$ID; D=${SEEDROOT:-/tmp/seed2}/eval/$ID-$J
mkdir -p $D; cp $S/change-$J.diff $D/patch.diff; cp $S/demo-$J.py $D/demo.py; cp $S/notes.md $D/notes.md
echo $D
