"""import_seed2.py <property> <j> <k> <caught: yes/no/after-strengthening> <summary> <needs> <note>
Round-2 seeded changes: sub-agent output in /tmp/seed2/out/<property>/{change-j.diff,demo-j.py,notes.md} -> /verif/seeded/<property>-<k>/"""
import json, os, shutil, sys
pid, j, k, caught, summary, needs, note = sys.argv[1:8]
import os as _os
src = f"{_os.environ.get('SEEDROOT', '/tmp/seed2')}/out/{pid}"
dst = f"/verif/seeded/{pid}-{k}"
os.makedirs(dst, exist_ok=True)
shutil.copy(f"{src}/change-{j}.diff", f"{dst}/patch.diff")
shutil.copy(f"{src}/demo-{j}.py", f"{dst}/demo.py")
shutil.copy(f"{src}/notes.md", f"{dst}/notes.md")
meta = dict(property=pid, round=int(_os.environ.get("SEEDROUND", "2")), summary=summary, breaks_property=pid, needs_to_manifest=needs,
            tests_run="by the author of the change (fresh sub-agent, own worktree): full suite without -x; only the two pre-existing tests/test_plot.py failures; details in notes.md (this change is 'change %s' there)" % j,
            what_i_ran=(f"git -C /repo apply patch.diff; PYTHONPATH=/repo /venv/bin/python demo.py -> exit 1; ./check {pid} --tier quick; git -C /repo checkout -- .; "
                        "demo.py on the clean tree -> exit 0 (tools/seed_eval.sh)"),
            detected_by_check=caught, detection_note=note)
json.dump(meta, open(f"{dst}/meta.json", "w"), indent=1)
print(dst)
