#!/bin/bash
# usage: seed_eval_copy.sh <property> <seed dir> [tier]  -- like seed_eval.sh but on a scratch worktree (/tmp/seedrepo, put first on
# PYTHONPATH), for use while long checks are running against /repo itself
P=$1; D=$2; T=${3:-quick}; R=/tmp/seedrepo
cd $R || exit 9
git diff --quiet || { echo "scratch repo dirty"; exit 9; }
git apply --check "$D/patch.diff" || { echo "patch does not apply"; exit 9; }
git apply "$D/patch.diff"
( cd $R && PYTHONPATH=$R timeout 900 /venv/bin/python $D/demo.py >/tmp/seedc_demo.out 2>&1 ); DEMO_BAD=$?
( cd /verif && PYTHONPATH=$R timeout 1500 ./check $P --tier $T >/tmp/seedc_check.out 2>/tmp/seedc_check.err ); CHK=$?
git checkout -- .
( cd $R && PYTHONPATH=$R timeout 900 /venv/bin/python $D/demo.py >/dev/null 2>&1 ); DEMO_OK=$?
echo "seed=$D demo_with_patch=$DEMO_BAD demo_clean=$DEMO_OK check_exit=$CHK"
grep -h "^VIOLATION\|^KNOWN" /tmp/seedc_check.out | head -3
grep -h "label=" /tmp/seedc_check.err | head -2 | cut -c1-300
grep -h "HARNESS-ERROR\|INCONCLUSIVE" /tmp/seedc_check.err | head -2 | cut -c1-300
