#!/bin/bash
# Runs every registered check (quick by default) one after another and prints a summary line per property.
TIER=${1:-quick}
cd "$(dirname "$0")/.."
for p in $(./.venv/bin/python -c "import sys; sys.path.insert(0,'.'); from harness import REGISTRY; print(' '.join(sorted(REGISTRY)))"); do
  s=$(date +%s)
  timeout 7200 ./check $p --tier $TIER > /tmp/run_all_$p.log 2>&1; rc=$?
  echo "$p exit=$rc wall=$(( $(date +%s) - s ))s $(grep -c '^KNOWN-FINDING' /tmp/run_all_$p.log) known $(grep -c '^VIOLATION' /tmp/run_all_$p.log) violations"
done
