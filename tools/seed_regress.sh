#!/bin/bash
# Re-runs every seeded change against the current checks on a scratch worktree (/tmp/seedrepo first on PYTHONPATH) and
# reports which are detected.  usage: seed_regress.sh [ID-prefix ...]   (default: all)
R=/tmp/seedrepo
[ -d $R ] || git -C /repo worktree add -q --detach $R HEAD
git -C $R checkout -q --detach $(git -C /repo rev-parse HEAD) 2>/dev/null
cd /verif
pats=("$@"); [ ${#pats[@]} -eq 0 ] && pats=("")
for d in seeded/*/; do
  s=$(basename $d); id=${s%%-*}
  ok=0; for p in "${pats[@]}"; do [[ $s == $p* ]] && ok=1; done; [ $ok = 1 ] || continue
  want=$(python3 -c "import json;print(json.load(open('$d/meta.json')).get('detected_by_check'))")
  ( cd $R && git checkout -q -- . && git apply --check /verif/$d/patch.diff 2>/dev/null ) || { echo "$s APPLY-FAILED (base moved) want=$want"; continue; }
  ( cd $R && git apply /verif/$d/patch.diff )
  t0=$(date +%s)
  PYTHONPATH=$R timeout 1800 ./check $id --tier quick > /tmp/seedreg.out 2>/tmp/seedreg.err; rc=$?
  ( cd $R && git checkout -q -- . )
  echo "$s exit=$rc violations=$(grep -c '^VIOLATION' /tmp/seedreg.out) want=$want wall=$(( $(date +%s) - t0 ))s"
done
