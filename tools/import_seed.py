"""import_seed.py <property> <src dir> <k> <caught: yes/no/after-strengthening> <note>"""
import json, os, shutil, sys
pid, src, k, caught, note = sys.argv[1:6]
dst = f"/verif/seeded/{pid}-{k}"
os.makedirs(dst, exist_ok=True)
for f in ("patch.diff", "demo.py"):
    shutil.copy(os.path.join(src, f), os.path.join(dst, f))
meta = json.load(open(os.path.join(src, "meta.json")))
meta["breaks_property"] = pid
meta["needs_to_manifest"] = meta.pop("needs", meta.get("needs_to_manifest", ""))
meta["what_i_ran"] = (f"git -C /repo apply patch.diff; PYTHONPATH=/repo /venv/bin/python demo.py -> exit 1; ./check {pid} --tier quick; git -C /repo checkout -- .; "
                      f"demo.py on the clean tree -> exit 0 (tools/seed_eval.sh); existing tests re-run by the author of the change: {meta.get('tests_run','')[:300]}")
meta["detected_by_check"] = caught
meta["detection_note"] = note
json.dump(meta, open(os.path.join(dst, "meta.json"), "w"), indent=1)
print(dst)
