"""C17 - INS level thresholds honour min_samples, min_remove and max_samples.

`determine_log_likelihood_threshold` is loop-free integer arithmetic: it is
executed once on *unbounded* symbolic integers (sizes, limits, the method's
own choice), so the verdict holds for every integer configuration that
`check_configuration` accepts.  The two threshold methods, `weighted_quantile`
and the training-set floor of `add_new_proposal` are executed on a few symbolic
values / weights.
"""
import math

import numpy as np

from sx import symnp as _symnp
from sx.logic import NOT, AND, OR, IMPLIES
from sx.runner import Unit

ID = "C17"
FUNCTIONS = [
    "nessai.samplers.importancesampler.ImportanceNestedSampler.determine_log_likelihood_threshold",
    "nessai.samplers.importancesampler.ImportanceNestedSampler.determine_threshold_entropy",
    "nessai.samplers.importancesampler.ImportanceNestedSampler.determine_threshold_quantile",
    "nessai.samplers.importancesampler.ImportanceNestedSampler.check_configuration",
    "nessai.samplers.importancesampler.ImportanceNestedSampler.add_new_proposal",
    "nessai.utils.stats.weighted_quantile",
]
BOUNDS = {
    "quick": dict(clamp="all integers (unbounded symbolic size, nlive, min_samples, min_remove, max_samples, method choice)", method_values="2..4 symbolic likelihoods and weights", training_floor="store of 1..4"),
    "thorough": dict(clamp="all integers (unbounded symbolic size, nlive, min_samples, min_remove, max_samples, method choice)", method_values="2..5 symbolic likelihoods and weights (quantile threshold and quantile monotonicity: <=4, the solver is inconclusive at 5)", training_floor="store of 1..6"),
}
SCOPE = "Integers are mathematical integers (Python ints); likelihoods and weights are symbolic reals in the log-semiring."
ASSUMPTIONS = [
    "configuration accepted by check_configuration and maintained by the sampler: 1 <= min_samples <= nlive <= size, 1 <= min_remove < nlive, max_samples unset or > nlive (a cap that cannot hold one level of nlive new draws makes the property unsatisfiable)",
    "the threshold method returns an index in [0, size) (proved separately for both methods)",
    "betainc(a,b,.) is a CDF on [0,1]: I(0)=0, I(1)=1, non-decreasing; for q1<q2 the Beta(q(n+1),(1-q)(n+1)) family is stochastically ordered: I_q1(x) >= I_q2(x)",
]
OUTSIDE = ["every iteration of real runs", "more values than the bound for the method functions", "numerical accuracy of scipy's betainc"]

PARALLEL_UNITS = True
MODS = ["nessai.samplers.importancesampler", "nessai.utils.stats"]


class FakeSamples:
    """Stands for an array of `size` samples sorted by likelihood; records the index read."""

    def __init__(self, size):
        self.size = size
        self.read = []

    def __getitem__(self, n):
        self.read.append(n)
        return {"logL": _Rec(n)}

    def __len__(self):
        raise TypeError("len() of the symbolic store")


class _Rec:
    """The likelihood of sample n: carries the (possibly symbolic) index it was read at."""

    def __init__(self, n):
        self.n = n

    def copy(self):
        return _Rec(self.n)


def _ins(ctx):
    from nessai.samplers.importancesampler import ImportanceNestedSampler
    ins = ImportanceNestedSampler.__new__(ImportanceNestedSampler)
    ins.plot = False
    ins._plot_level_cdf = False
    return ins


def make_clamp(cap):
    def body(ctx):
        mut = getattr(ctx, "mutant", None)
        ins = _ins(ctx)
        hi = None if ctx.mode == "sym" else 12
        size = ctx.int("size", 1, hi)
        nlive = ctx.int("nlive", 1, hi)
        min_samples = ctx.int("min_samples", 1, hi)
        min_remove = ctx.int("min_remove", 1, hi)
        nm = ctx.int("n_method", 0, hi)
        ctx.assume(nm < size)
        ctx.assume(min_samples <= nlive)
        ctx.assume(nlive <= size)
        ins.nlive, ins.min_samples, ins.min_remove = nlive, min_samples, min_remove
        # the configuration must pass the real check
        try:
            ok = ins.check_configuration()
        except ValueError:
            ok = False
        if not ok:
            ctx.cover("rejected")
            ctx.prove(OR(min_remove >= nlive, min_samples > nlive), "configurations are only rejected for min_remove >= nlive or min_samples > nlive")
            return
        if mut != "noconfig":
            pass
        ins.draw_constant = bool(ctx.choice("draw_constant", 2))
        if cap:
            ms = ctx.int("max_samples", 1, None if ctx.mode == "sym" else 30)
            ctx.assume(ms > nlive)
            ins.max_samples = ms
            if not ins.draw_constant:
                # without constant draws the number of samples stays nlive
                ctx.assume(size == nlive)
        else:
            ins.max_samples = None
        ins.determine_threshold_entropy = lambda samples, **kw: nm
        ins.determine_threshold_quantile = lambda samples, **kw: nm
        s = FakeSamples(size)
        out = ins.determine_log_likelihood_threshold(s, method=["entropy", "quantile"][ctx.choice("method", 2)])
        ctx.prove(isinstance(out, _Rec), "the threshold is the likelihood of one of the stored samples")
        if not isinstance(out, _Rec):
            return
        n = out.n
        ctx.prove(AND(n >= 0, n < size), "the threshold is the likelihood of one of the live samples (index in range)")
        kept = size - n
        n_eff = nm if mut != "shift" else nm + 1
        n1 = _max(ctx, n_eff, 1)  # a choice of 0 is raised to 1 when min_remove >= 1
        capped = False
        if cap and ins.draw_constant:
            capped = (kept + nlive) >= ms  # cap applied (or exactly met)
        would_leave = size - n1
        ctx.prove(OR(capped, NOT(would_leave < min_samples), kept == min_samples), "if the method's choice leaves < min_samples, exactly min_samples are kept (unless the cap applies)")
        ctx.prove(OR(capped, would_leave < min_samples, n >= min_remove), "otherwise at least min_remove are removed (unless the cap applies)")
        ctx.prove(OR(capped, would_leave < min_samples, n >= n1), "never fewer removed than the method chose")
        if cap and ins.draw_constant:
            ctx.prove(kept + nlive <= ms, "with constant draws and a cap the next level does not exceed max_samples")
        ctx.cover("end")
    return body


def _max(ctx, a, b):
    if ctx.mode == "sym":
        return _symnp.smax(a, b)
    return max(a, b)


def _dtype(ctx):
    f = "O" if ctx.mode == "sym" else "f8"
    return np.dtype([("x", f), ("logL", f), ("logW", f)])


def _samples(ctx, n, positive_weights=True):
    a = np.empty(n, dtype=_dtype(ctx))
    Ls = [ctx.real(f"L{i}") for i in range(n)]
    for i in range(n - 1):
        ctx.assume(Ls[i] <= Ls[i + 1])
    for i in range(n):
        a[i] = (0.0, Ls[i], ctx.logval(f"w{i}", positive=positive_weights))
    return a, Ls


def make_entropy(n, use_log_weights):
    def body(ctx):
        ins = _ins(ctx)
        s, Ls = _samples(ctx, n)
        q = ctx.real("q", 0, 1)
        k = ins.determine_threshold_entropy(s, q=q, use_log_weights=use_log_weights)
        ctx.prove(isinstance(k, int) and 0 <= k < n, "entropy method returns an index of a live sample")
        if not use_log_weights:
            # documented meaning: first index where the normalised cumulative weight reaches q
            snp = _symnp.symnp if ctx.mode == "sym" else np
            w = [snp.exp(x) for x in s["logW"]]
            tot = sum(w[1:], w[0])
            acc = 0.0
            first = None
            for i in range(n):
                acc = acc + w[i]
                if first is None and bool(acc >= q * tot):
                    first = i
            ctx.prove(first is not None and k == first, "entropy method: first index whose cumulative weight fraction reaches q")
        ctx.cover("end")
    return body


class Betainc:
    """Uninterpreted regularised incomplete beta function with ground CDF axioms."""

    def __init__(self, ctx):
        self.ctx = ctx
        self.points = []  # (a, b, x, value)

    def __call__(self, a, b, x):
        ctx = self.ctx
        if ctx.mode != "sym":
            from scipy.special import betainc
            return betainc(a, b, x)
        from sx.values import Sym, lift
        xa = np.asarray(x, dtype=object)
        out = np.empty(xa.shape, dtype=object)
        la, lb = lift(_item(a)), lift(_item(b))
        for idx in np.ndindex(*xa.shape):
            xv = lift(xa[idx])
            v = ctx.uf("betainc", la, lb, xv)
            ctx.axiom((v >= 0) & (v <= 1))
            ctx.axiom(~(xv == 0) | (v == 0))
            ctx.axiom(~(xv == 1) | (v == 1))
            for (a2, b2, x2, v2) in self.points:
                same = (a2 == la) & (b2 == lb)
                ctx.axiom(~(same & (x2 <= xv)) | (v2 <= v))
                ctx.axiom(~(same & (xv <= x2)) | (v <= v2))
                # stochastic ordering in the quantile: a larger, b smaller (same a+b) => smaller CDF
                ordered = (la >= a2) & (lb <= b2) & (x2 == xv)
                ctx.axiom(~ordered | (v <= v2))
                ordered2 = (a2 >= la) & (b2 <= lb) & (x2 == xv)
                ctx.axiom(~ordered2 | (v2 <= v))
            self.points.append((la, lb, xv, v))
            out[idx] = v
        return out


def _item(a):
    if isinstance(a, np.ndarray):
        return a.item()
    return a


def make_quantile(n, equal_weights=False, monotone=False):
    def body(ctx):
        from nessai.utils import stats
        mut = getattr(ctx, "mutant", None)
        vals = [ctx.real(f"v{i}") for i in range(n)]
        for i in range(n - 1):
            ctx.assume(vals[i] <= vals[i + 1])
        if equal_weights:
            lw = None
        else:
            lw = np.array([ctx.logval(f"w{i}") for i in range(n)], dtype=object if ctx.mode == "sym" else float)
            if ctx.mode == "conc":
                ctx.assume(np.any(np.isfinite(lw)))
            else:
                from sx.values import SymBool
                import z3
                ctx.assume(SymBool(z3.Or(*[x.num > 0 for x in lw])))
        q1 = ctx.real("q1", 0, 1)
        bi = Betainc(ctx)
        old = stats.betainc
        stats.betainc = bi
        try:
            v = np.array(vals, dtype=object if ctx.mode == "sym" else float)
            r1 = stats.weighted_quantile(v, q1, log_weights=lw, values_sorted=True)
            r1 = r1[0] if isinstance(r1, np.ndarray) and r1.ndim else r1
            lo, hi = vals[0], vals[-1]
            if mut == "range":
                hi = vals[0]
            ctx.prove_le(lo, r1, "weighted quantile lies within the data range")
            ctx.prove_le(r1, hi, "weighted quantile lies within the data range")
            if monotone:
                q2 = ctx.real("q2", 0, 1)
                ctx.assume(q1 <= q2)
                r2 = stats.weighted_quantile(v, q2, log_weights=lw, values_sorted=True)
                r2 = r2[0] if isinstance(r2, np.ndarray) and r2.ndim else r2
                ctx.prove_le(r1, r2, "weighted quantile is monotone in the quantile")
            if equal_weights and ctx.mode == "sym":
                # equal weights: the ordinary Harrell-Davis estimator  sum_i v_i (I(i/n) - I((i-1)/n)) with a = q(n+1), b = (1-q)(n+1)
                from sx.values import Sym, rv
                a = q1 * (n + 1)
                b = (1 - q1) * (n + 1)
                ref = 0
                for i in range(n):
                    I1 = ctx.uf("betainc", a, b, Sym(rv(i + 1)) / Sym(rv(n)))
                    I0 = ctx.uf("betainc", a, b, Sym(rv(i)) / Sym(rv(n)))
                    ref = ref + vals[i] * (I1 - I0)
                ctx.prove_eq(r1, ref, "equal weights: reduces to the ordinary (Harrell-Davis) quantile estimator")
        finally:
            stats.betainc = old
        ctx.cover("end")
    return body


def make_threshold_quantile(n):
    def body(ctx):
        from nessai.utils import stats
        ins = _ins(ctx)
        s, Ls = _samples(ctx, n)
        q = ctx.real("q", 0, 1)
        bi = Betainc(ctx)
        old = stats.betainc
        stats.betainc = bi
        try:
            k = ins.determine_threshold_quantile(s, q=q)
        finally:
            stats.betainc = old
        ctx.prove(isinstance(k, int) and 0 <= k < n, "quantile method returns an index of a live sample")
        ctx.cover("end")
    return body


def make_floor(m):
    """add_new_proposal trains on at least min_samples samples (and on all samples at or above the threshold)."""
    def body(ctx):
        ins = _ins(ctx)
        s, Ls = _samples(ctx, m)
        T = ctx.real("T")
        min_samples = 1 + ctx.choice("min_samples", m)

        class Store:
            pass
        st = Store()
        st.samples = s
        st.log_q = np.zeros((m, 2))
        ins.training_samples = st
        ins.log_likelihood_threshold = T
        ins.min_samples = min_samples
        ins.replace_all = bool(ctx.choice("replace_all", 2))
        ins.weighted_kl = bool(ctx.choice("weighted_kl", 2))
        ins.plot_training_data = False
        import datetime
        ins.training_time = datetime.timedelta()
        got = {}

        class Prop:
            def train(self, samples, plot=None, weights=None):
                got["n"] = len(samples)
                got["tags"] = samples
        ins.proposal = Prop()
        ins.add_new_proposal()
        n_above = sum(1 for i in range(m) if bool(Ls[i] >= T))
        ctx.prove(got["n"] >= min_samples, "every proposal is trained on at least min_samples samples")
        ctx.prove(got["n"] >= n_above, "the training set contains every sample at or above the threshold")
        ctx.cover("end")
    return body


def units(tier):
    us = []
    lin = dict()
    for cap in (False, True):
        us.append(Unit(f"clamp[cap={cap}]", make_clamp(cap), MODS, lin, expect_cover=["end", "rejected"], mutants=["shift"], twin_runs=200, witness_every=1, nproc=1))
    ns = [2, 3, 4] if tier == "quick" else [2, 3, 4, 5]
    nl = dict(exp_axioms="signs", fresh=True, timeout_ms=60000)
    for n in ns:
        for ulw in (False, True):
            us.append(Unit(f"entropy[n={n},use_log_weights={ulw}]", make_entropy(n, ulw), MODS, nl, expect_cover=["end"], twin_runs=20, witness_every=2, nproc=1))
        if n <= 3 or (tier == "thorough" and n <= 4):
            us.append(Unit(f"threshold_quantile[n={n}]", make_threshold_quantile(n), MODS, nl, expect_cover=["end"], twin_runs=20, witness_every=2, nproc=1))
        us.append(Unit(f"quantile_range[n={n}]", make_quantile(n), MODS, nl, expect_cover=["end"], mutants=["range"] if n == 3 else [], twin_runs=20, witness_every=2, nproc=1))
        us.append(Unit(f"quantile_equal_weights[n={n}]", make_quantile(n, equal_weights=True), MODS, nl, expect_cover=["end"], twin_runs=10, witness_every=2, nproc=1))
        if n <= 3 or (tier == "thorough" and n <= 4):
            us.append(Unit(f"quantile_monotone[n={n}]", make_quantile(n, monotone=True), MODS, nl, expect_cover=["end"], twin_runs=20, witness_every=2, nproc=1))
    for m in ([1, 2, 3, 4] if tier == "quick" else [1, 2, 3, 4, 5, 6]):
        us.append(Unit(f"training_floor[m={m}]", make_floor(m), MODS, dict(), expect_cover=["end"], twin_runs=20, witness_every=3, nproc=1))
    return us
