"""C11 - a process kill during checkpointing never leaves the run unresumable.

The real checkpoint / weights-saving code is executed against a file-system
model; the crash point is a *symbolic* index over the sequence of file
operations the real code performs (including each chunk of a write).  After the
crash the real resume chain (FlowSampler.check_resume -> _resume_from_file ->
BaseNestedSampler.resume -> NestedSampler.resume_from_pickled_sampler ->
FlowProposal.resume -> FlowModel.reload_weights / ImportanceFlowModel.resume)
is executed on the surviving directory.  In concrete mode the same body runs
on a real temporary directory with the real pickle / torch serialisers, so the
loaders' real exceptions are what the verdict is replayed against.
"""
import contextlib
import datetime
import os

from sx import fsmodel
from sx.runner import Unit

ID = "C11"
FUNCTIONS = [
    "nessai.utils.io.safe_file_dump",
    "nessai.samplers.base.BaseNestedSampler.checkpoint",
    "nessai.samplers.base.BaseNestedSampler.resume",
    "nessai.samplers.base.BaseNestedSampler.resume_from_pickled_sampler",
    "nessai.samplers.nestedsampler.NestedSampler.resume_from_pickled_sampler",
    "nessai.flowsampler.FlowSampler.check_resume",
    "nessai.flowsampler.FlowSampler._resume_from_file",
    "nessai.flowmodel.base.FlowModel.save_weights",
    "nessai.flowmodel.base.FlowModel.load_weights",
    "nessai.flowmodel.base.FlowModel.reload_weights",
    "nessai.proposal.flowproposal.FlowProposal.resume",
    "nessai.flowmodel.importance.ImportanceFlowModel.save_weights",
    "nessai.flowmodel.importance.ImportanceFlowModel.update_weights_path",
    "nessai.flowmodel.importance.ImportanceFlowModel.load_all_weights",
    "nessai.flowmodel.importance.ImportanceFlowModel.resume",
]
BOUNDS = {
    "quick": dict(crash_point="any operation index (symbolic) of the checkpoint / weights save, writes in 3 chunks", initial_directory="every combination of resume file / .old / stale .temp (absent, complete, torn) satisfying the directory invariant", cycles=1),
    "thorough": dict(crash_point="any operation index (symbolic) of the checkpoint / weights save, writes in 3 chunks", initial_directory="every combination of resume file / .old / stale .temp (absent, complete, torn) satisfying the directory invariant", cycles="2 consecutive crash/resume cycles"),
}
SCOPE = "Versions of checkpoints and weights are symbolic integers; the crash index is a symbolic integer decided by the solver against the real operation sequence."
ASSUMPTIONS = [
    "rename (shutil.move within one directory) is atomic and replaces its target; data written before the kill and flushed is on disk, unflushed data may be lost (a file is complete only after close)",
    "loaders: absent file -> FileNotFoundError; truncated pickle -> EOFError (0 bytes) or UnpicklingError; truncated torch file -> EOFError (0 bytes) or RuntimeError (measured in this sandbox; the concrete replay uses the real loaders)",
    "the pickled sampler is represented by the fields the resume chain reads (version, weights file, evaluation counters)",
]
OUTSIDE = ["fsync / power loss", "shutil.move across devices", "the continued sampling after a successful resume (C12/C13)"]

PARALLEL_UNITS = True
MODS = []
OUT = "out/"
RESUME = "nested_sampler_resume.pkl"


@contextlib.contextmanager
def patched_fs(fs, snapshot, rebuild):
    """Bind the file-system stand-ins inside the nessai modules."""
    import nessai.utils.io as io_mod
    import nessai.samplers.base as base_mod
    import nessai.flowsampler as fsam
    import nessai.flowmodel.base as fmb
    import nessai.flowmodel.importance as fmi
    import nessai.proposal.flowproposal as fpp
    from sx.symnp import null_logger
    fos, fsh = fsmodel.FakeOS(fs), fsmodel.FakeShutil(fs)
    fpk = fsmodel.FakePickle(fs, snapshot)
    real_load = fpk.load
    fpk.load = lambda f, *a, **k: rebuild(real_load(f))
    ftorch = fsmodel.FakeTorch(fs)
    plan = [
        (io_mod, dict(os=fos, shutil=fsh, open=fs.open, logger=null_logger)),
        (base_mod, dict(pickle=fpk, open=fs.open, logger=null_logger)),
        (fsam, dict(os=fos, logger=null_logger)),
        (fmb, dict(os=fos, shutil=fsh, torch=ftorch, logger=null_logger)),
        (fmi, dict(os=fos, glob=fsmodel.FakeGlob(fs), torch=ftorch, logger=null_logger, configure_model=lambda cfg: _StubNet())),
        (fpp, dict(os=fos, shutil=fsh, logger=null_logger)),
    ]
    saved = []
    missing = object()
    try:
        for mod, names in plan:
            for n, v in names.items():
                saved.append((mod, n, mod.__dict__.get(n, missing)))
                setattr(mod, n, v)
        yield
    finally:
        for mod, n, old in reversed(saved):
            if old is missing:
                delattr(mod, n)
            else:
                setattr(mod, n, old)


class _StubNet:
    """Stands for a torch module: records the state dict it is given."""

    def __init__(self):
        self.loaded = None
        self.device = None

    def state_dict(self):
        return self._sd

    def load_state_dict(self, sd):
        self.loaded = sd

    def eval(self):
        return self

    def train(self):
        return self


class _ModuleList(list):
    def eval(self):
        return self


def _mkfs(ctx, crash_at):
    return fsmodel.ModelFS(crash_at) if ctx.mode == "sym" else fsmodel.RealFS(crash_at)


def _put(ctx, fs, path, content, kind="pickle"):
    if ctx.mode == "sym":
        fs.put(path, content)
    else:
        fs.put(path, content, kind)


def _put_torn(ctx, fs, path, nbytes, kind="pickle"):
    if ctx.mode == "sym":
        fs.put_torn(path, nbytes)
    else:
        fs.put_torn(path, nbytes, kind, content={"version": -1})


# ---------------------------------------------------------------------------
# the writer side: a sampler that checkpoints
# ---------------------------------------------------------------------------

def _writer_sampler(version, weights_file):
    from nessai.samplers.nestedsampler import NestedSampler
    ns = NestedSampler.__new__(NestedSampler)
    ns.history = dict(checkpoint_iterations=[])
    ns.iteration = 5
    ns.sampling_time = datetime.timedelta()
    ns.sampling_start_time = datetime.datetime.now()
    ns.checkpoint_callback = None
    ns.resume_file = OUT + RESUME
    ns._verif = dict(version=version, weights_file=weights_file)
    return ns


def _snapshot(data):
    return dict(data._verif)


class _Uninformed:
    def resume(self, model):
        self.model = model


def _rebuild(ctx):
    """pickle.load -> an object carrying what the resume chain reads."""
    def rebuild(d):
        from nessai.samplers.nestedsampler import NestedSampler
        from nessai.proposal.flowproposal import FlowProposal
        from nessai.flowmodel.base import FlowModel
        ns = NestedSampler.__new__(NestedSampler)
        ns._verif = d
        ns._previous_likelihood_evaluations = 0
        ns._previous_likelihood_evaluation_time = 0.0
        ns._uninformed_proposal = _Uninformed()
        fp = FlowProposal.__new__(FlowProposal)
        fp.mask = None
        fp.weights_file = d.get("weights_file")

        def initialise(resumed=False):
            fm = FlowModel.__new__(FlowModel)
            fm.initialised = True
            fm.model = _StubNet()
            fm.weights_file = None
            fp.flow = fm
        fp.initialise = initialise
        ns._flow_proposal = fp
        return ns
    return rebuild


class _Model:
    likelihood_evaluations = 0
    likelihood_evaluation_time = datetime.timedelta()


def _resume(ctx, fs):
    """The real resume chain of a fresh process. Returns (resumed?, sampler or None)."""
    from nessai.flowsampler import FlowSampler
    from nessai.samplers.nestedsampler import NestedSampler
    fsam = FlowSampler.__new__(FlowSampler)
    fsam.output = OUT
    if not fsam.check_resume(RESUME, None):
        return False, None
    ns = fsam._resume_from_file(NestedSampler, RESUME, _Model(), None, {})
    return True, ns


INITIAL = [
    # (resume file, .old, stale .temp)
    ("absent", "absent", "absent"),
    ("absent", "absent", "torn"),
    ("cur", "absent", "absent"),
    ("cur", "prev", "absent"),
    ("cur", "prev", "torn"),
    ("absent", "prev", "torn"),     # left behind by an earlier kill between the two renames
    ("absent", "prev", "complete"),
]


def make_checkpoint(save_existing, cycles=1):
    def body(ctx):
        mut = getattr(ctx, "mutant", None)
        crash = ctx.int("crash_at", 0, 40)
        fs = _mkfs(ctx, crash)
        try:
            init = INITIAL[ctx.choice("initial", len(INITIAL))]
            v_prev2 = ctx.int("v_old", 0, 1000)
            v_prev = ctx.int("v_cur", 0, 1000)
            v_new = ctx.int("v_new", 0, 1000)
            ctx.assume(v_prev2 < v_prev)
            ctx.assume(v_prev < v_new)
            f, fo, ft = OUT + RESUME, OUT + RESUME + ".old", OUT + RESUME + ".temp"
            acceptable = []
            if init[0] == "cur":
                _put(ctx, fs, f, dict(version=v_prev, weights_file=None))
                acceptable = [v_prev]
                if init[1] == "prev":
                    _put(ctx, fs, fo, dict(version=v_prev2, weights_file=None))
            elif init[1] == "prev":
                _put(ctx, fs, fo, dict(version=v_prev, weights_file=None))
                acceptable = [v_prev]
            if init[2] == "torn":
                _put_torn(ctx, fs, ft, 1 + ctx.choice("tornbytes", 2))
            elif init[2] == "complete":
                _put(ctx, fs, ft, dict(version=v_new - 1 if False else v_prev, weights_file=None))
            completed_before = bool(acceptable)
            with patched_fs(fs, _snapshot, _rebuild(ctx)):
                ns = _writer_sampler(v_new, None)
                crashed = False
                try:
                    ns.checkpoint(periodic=False, save_existing=save_existing)
                except fsmodel.Crash:
                    crashed = True
                n_ops = fs.ops
                fs.disarm()
                if not crashed:
                    # the crash index lies beyond the end of the checkpoint: equivalent to no crash
                    ctx.assume(crash >= n_ops)
                    ctx.cover("no-crash")
                else:
                    ctx.cover("crash:" + fs.crashed_before.split(" ")[0])
                try:
                    resumed, got = _resume(ctx, fs)
                except Exception as e:  # the new process failed to start
                    ctx.fail("resume raised " + type(e).__name__, f"crashed before: {getattr(fs, 'crashed_before', None)}; initial={init}; {type(e).__name__}: {e}")
                    return
            if mut == "strict":
                ctx.prove(resumed and got._verif["version"] == v_new, "MUTANT: always the new checkpoint")
            if not resumed:
                ctx.prove(not completed_before and crashed, "a fresh start happens only when no checkpoint had ever completed")
            else:
                v = got._verif["version"]
                ok = (v == v_new)
                for a in acceptable:
                    ok = ok | (v == a)
                ctx.prove(ok, "the loaded checkpoint is the previous one or the new one (complete, never torn)")
                if not crashed:
                    ctx.prove(v == v_new, "without a crash the new checkpoint is the one found")
            ctx.cover("end")
        finally:
            fs.cleanup()
    return body


def make_weights(variant):
    """Kill during FlowModel.save_weights of a re-training; resume must load complete weights."""
    def body(ctx):
        from nessai.flowmodel.base import FlowModel
        crash = ctx.int("crash_at", 0, 40)
        fs = _mkfs(ctx, crash)
        try:
            w_old = ctx.int("w_old", 0, 1000)
            w_cur = ctx.int("w_cur", 0, 1000)
            w_new = ctx.int("w_new", 0, 1000)
            ctx.assume(w_old < w_cur)
            ctx.assume(w_cur < w_new)
            wf = OUT + "proposal/model.pt"
            had_weights = variant != "first"
            if had_weights:
                _put(ctx, fs, wf, dict(version=w_cur), "torch")
                if variant == "third":
                    _put(ctx, fs, wf + ".old", dict(version=w_old), "torch")
            # the last completed checkpoint refers to the weights that were current when it was written
            _put(ctx, fs, OUT + RESUME, dict(version=7, weights_file=wf if had_weights else None))
            with patched_fs(fs, _snapshot, _rebuild(ctx)):
                fm = FlowModel.__new__(FlowModel)
                fm.model = _StubNet()
                fm.model._sd = dict(version=w_new)
                fm.weights_file = wf if had_weights else None
                crashed = False
                try:
                    fm.save_weights(wf)
                except fsmodel.Crash:
                    crashed = True
                n_ops = fs.ops
                fs.disarm()
                if not crashed:
                    ctx.assume(crash >= n_ops)
                    ctx.cover("no-crash")
                else:
                    ctx.cover("crash:" + fs.crashed_before.split(" ")[0])
                try:
                    resumed, got = _resume(ctx, fs)
                except Exception as e:
                    ctx.fail("resume raised " + type(e).__name__, f"crashed before: {getattr(fs, 'crashed_before', None)}; variant={variant}; {type(e).__name__}: {e}")
                    return
            ctx.prove(resumed and got._verif["version"] == 7, "the completed checkpoint is found")
            loaded = got._flow_proposal.flow.model.loaded
            if had_weights:
                ctx.prove(loaded is not None, "the weights the checkpoint refers to are loaded")
                if loaded is not None:
                    v = loaded["version"]
                    ctx.prove((v == w_cur) | (v == w_new), "loaded weights are complete: the previous or the new ones")
            ctx.cover("end")
        finally:
            fs.cleanup()
    return body


def make_ins_weights(n_levels):
    """Kill while the importance sampler saves the weights of a new level; resume loads the first n complete ones."""
    def body(ctx):
        from nessai.flowmodel.importance import ImportanceFlowModel
        crash = ctx.int("crash_at", 0, 40)
        fs = _mkfs(ctx, crash)
        try:
            base = ctx.int("w0", 0, 1000)
            for i in range(n_levels):
                _put(ctx, fs, OUT + f"levels/level_{i}/model.pt", dict(version=base + i), "torch")
            retrain = bool(ctx.choice("retrain_existing_level", 2)) and n_levels > 0
            k = n_levels - 1 if retrain else n_levels
            target = OUT + f"levels/level_{k}/model.pt"
            with patched_fs(fs, _snapshot, _rebuild(ctx)):
                ifm = ImportanceFlowModel.__new__(ImportanceFlowModel)
                net = _StubNet()
                net._sd = dict(version=base + 100)
                ifm.models = _ModuleList([net])
                ifm.weights_file = None
                ifm.weights_files = [OUT + f"levels/level_{i}/model.pt" for i in range(k)]
                crashed = False
                try:
                    ifm.save_weights(target)
                except fsmodel.Crash:
                    crashed = True
                n_ops = fs.ops
                fs.disarm()
                if not crashed:
                    ctx.assume(crash >= n_ops)
                # the last iteration-boundary checkpoint precedes the training of level k, so it knows k models
                # (a level directory is only ever rewritten by a resumed run that had not checkpointed it)
                n_ckpt = k
                new = ImportanceFlowModel.__new__(ImportanceFlowModel)
                new.output = OUT + "levels"
                new.weights_files = []
                new._resume_n_models = n_ckpt
                new.n_models_attr = None
                new.training_config = {}
                new.initialise = lambda: None
                import nessai.flowmodel.importance as fmi
                old_ml = fmi.torch
                class T:
                    class nn:
                        ModuleList = _ModuleList
                    device = staticmethod(lambda tag: tag)
                    load = staticmethod(fmi.torch.load)
                fmi.torch = T
                try:
                    try:
                        new.resume({}, None)
                    except Exception as e:
                        ctx.fail("resume raised " + type(e).__name__, f"crashed before: {getattr(fs, 'crashed_before', None)}; levels={n_levels} retrain={retrain} n_ckpt={n_ckpt}; {type(e).__name__}: {e}")
                        return
                finally:
                    fmi.torch = old_ml
            ctx.prove(len(new.models) == n_ckpt, "exactly the levels known to the checkpoint are loaded")
            for i, m in enumerate(new.models):
                v = m.loaded["version"]
                if retrain and i == k:
                    ctx.prove((v == base + i) | (v == base + 100), "re-trained level: previous or new weights, complete")
                else:
                    ctx.prove(v == base + i, "level i loaded from its own complete file")
            ctx.cover("end")
        finally:
            fs.cleanup()
    return body


def units(tier):
    us = []
    opts = dict()
    for se in (True, False):
        us.append(Unit(f"checkpoint[save_existing={se}]", make_checkpoint(se), MODS, opts, expect_cover=["end", "no-crash", "crash:write", "crash:move"],
                       mutants=["strict"] if se else [], twin_runs=60, witness_every=1, nproc=1))
    for variant in ("first", "second", "third"):
        us.append(Unit(f"weights[{variant}]", make_weights(variant), MODS, opts, expect_cover=["end", "crash:write"], twin_runs=40, witness_every=1, nproc=1))
    for n in ((0, 1, 2) if tier == "quick" else (0, 1, 2, 3)):
        us.append(Unit(f"ins_weights[levels={n}]", make_ins_weights(n), MODS, opts, expect_cover=["end"], twin_runs=30, witness_every=1, nproc=1))
    return us
