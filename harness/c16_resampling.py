"""C16 - posterior resampling follows the posterior weights.

`draw_posterior_samples` (both methods), `effective_sample_size` and
`_BaseNSIntegralState.effective_n_posterior_samples` are executed on symbolic
weights; the uniform draws of the random generator are symbolic values in
[0,1), so "sample i is kept iff u_i < w_i / max w" is decided for every
weight vector and every draw - the inclusion probability follows without
sampling.
"""
import math

import numpy as np

from sx import symnp as _symnp
from sx.runner import Unit

ID = "C16"
FUNCTIONS = [
    "nessai.posterior.draw_posterior_samples",
    "nessai.utils.stats.effective_sample_size",
    "nessai.evidence._BaseNSIntegralState.effective_n_posterior_samples",
    "nessai.samplers.importancesampler.ImportanceNestedSampler.draw_posterior_samples",
]
BOUNDS = {
    "quick": dict(n_samples="1..4 (rejection), 1..4 (multinomial, explicit size), 1..3 (default size int(ESS))", ess_bounds="n<=5", ins_method="n = 2..3 per set (rejection), n = 2, requested size 1..3 (multinomial); use_final_samples x final samples present/absent"),
    "thorough": dict(n_samples="1..6 (rejection), 1..6 (multinomial, explicit size), 1..3 (default size int(ESS))", ess_bounds="n<=7", ins_method="n = 2..4 per set (rejection), n = 2..3, requested size 1..3 (multinomial); use_final_samples x final samples present/absent"),
}
SCOPE = "Weights w_i = exp(log_w_i) are symbolic non-negative reals (zeros = -inf log-weights allowed, not all zero, not normalised)."
ASSUMPTIONS = [
    "np.random.rand returns values in [0,1) (each an independent uniform draw: numpy's contract)",
    "np.random.choice(n, size, p, replace=True) samples indices with the probabilities it is handed (numpy's contract); the check decides what it is handed; outcome j of the generator stands for the nested sample that a call cycling through all outcomes returns at position j",
]
ASSUMPTIONS.append("ins_method units: differential_entropy (logging only) is stubbed; the sampler object is a namespace holding the five attributes the method reads; both sample sets have the same length")
OUTSIDE = ["selection frequencies over many draws (follow from the decided acceptance region plus numpy's contract)", "weight vectors longer than the bound"]

PARALLEL_UNITS = True
MODS = ["nessai.posterior", "nessai.utils.stats", "nessai.evidence"]


def _snp(ctx):
    return _symnp.symnp if ctx.mode == "sym" else np


def _weights(ctx, n, zeros=True):
    lw = [ctx.logval(f"w{i}", positive=not zeros) for i in range(n)]
    if zeros:
        if ctx.mode == "sym":
            import z3
            from sx.values import SymBool
            ctx.assume(SymBool(z3.Or(*[x.num > 0 for x in lw])))
        else:
            ctx.assume(any(math.isfinite(x) for x in lw))
    return lw


def _samples(ctx, n):
    a = np.empty(n, dtype=[("x", "f8"), ("logL", "f8"), ("tag", "i8")])
    for i in range(n):
        a[i] = (0.5 * i, -1.0 * i, i)
    return a


def _bounded_exp(ctx, n):
    """Context manager recording every exp argument inside nessai.posterior / nessai.utils.stats."""
    import contextlib
    args = []

    @contextlib.contextmanager
    def cm():
        if ctx.mode == "sym":
            _symnp.HOOKS["exp"] = args.append
            try:
                yield args
            finally:
                _symnp.HOOKS.pop("exp", None)
        else:
            import nessai.posterior as P
            import nessai.utils.stats as S
            with _symnp.recording([P, S], {"exp": args.append}):
                yield args
    return cm()


def _check_bounded(ctx, args, n):
    snp = _snp(ctx)
    bound = math.log(n) + 1e-9 if ctx.mode == "conc" else snp.log(n)
    ok = True
    for a in args:
        if isinstance(a, float) and (a == -math.inf or a != a):
            continue
        ok = ok & (a <= bound)
    ctx.prove(len(args) > 0 and ok, "every exponential is taken of a normalised log-weight (<= log n): no overflow or underflow whatever the offset of the weights")


def make_rejection(n):
    def body(ctx):
        from nessai import posterior
        mut = getattr(ctx, "mutant", None)
        snp = _snp(ctx)
        lw = _weights(ctx, n)
        ns = _samples(ctx, n)
        us = [ctx.real(f"u{i}", 0) for i in range(n)]
        for u in us:
            ctx.assume(u < 1)
        arr = np.array(lw, dtype=object if ctx.mode == "sym" else float)
        uarr = np.array(us, dtype=object if ctx.mode == "sym" else float)
        if ctx.mode == "sym":
            _symnp.symrandom.reset()
            _symnp.symrandom.handlers["rand"] = lambda *shape: uarr.copy()
            with _bounded_exp(ctx, n) as eargs:
                out, idx = posterior.draw_posterior_samples(ns, log_w=arr, method="rejection_sampling", return_indices=True)
            calls = list(_symnp.symrandom.calls)
            _symnp.symrandom.reset()
            ctx.prove(len(calls) == 1 and calls[0][0] == "rand" and tuple(calls[0][1]) == (n,), "one uniform draw per nested sample")
        else:
            real = np.random.rand
            np.random.rand = lambda *shape: uarr.copy()
            try:
                with _bounded_exp(ctx, n) as eargs:
                    out, idx = posterior.draw_posterior_samples(ns, log_w=arr, method="rejection_sampling", return_indices=True)
            finally:
                np.random.rand = real
        idx = [int(i) for i in idx]
        _check_bounded(ctx, eargs, n)
        ctx.prove(all(a < b for a, b in zip(idx, idx[1:])) and all(0 <= i < n for i in idx), "returned indices are distinct valid positions")
        ctx.prove([int(t) for t in out["tag"]] == idx, "posterior samples are the nested samples at the returned indices")
        w = [snp.exp(x) for x in lw]
        wmax = w[0]
        for x in w[1:]:
            wmax = _symnp.smax(wmax, x) if ctx.mode == "sym" else max(wmax, x)
        conds = True
        for i in range(n):
            keep = us[i] * wmax < w[i]
            if mut == "le":
                keep = us[i] * wmax <= w[i] * 0.5
            conds = conds & (keep if i in idx else ~keep if ctx.mode == "sym" else (bool(keep) if i in idx else not bool(keep)))
        if ctx.mode == "conc":
            # the boundary u*wmax == w is decided in floating point by log/exp rounding; skip exact ties
            for i in range(n):
                if abs(us[i] * wmax - w[i]) <= 1e-12 * max(wmax, 1e-300):
                    ctx.assume(False)
        ctx.prove(conds, "sample i is kept iff u_i < w_i / max w (acceptance region = inclusion probability)")
        zero = [i for i in range(n) if bool(w[i] <= 0)] if ctx.mode == "conc" else None
        if ctx.mode == "sym":
            c2 = True
            for i in idx:
                c2 = c2 & (w[i] > 0)
            ctx.prove(c2, "zero-weight samples are never returned")
            c3 = True
            for i in range(n):
                if i not in idx:
                    c3 = c3 & (w[i] < wmax)
            ctx.prove(c3, "every maximum-weight sample is returned")
        else:
            ctx.prove(all(i not in idx for i in zero), "zero-weight samples are never returned")
        ctx.cover("end")
    return body


def make_multinomial(n, size_mode):
    def body(ctx):
        from nessai import posterior
        mut = getattr(ctx, "mutant", None)
        snp = _snp(ctx)
        lw = _weights(ctx, n)
        ns = _samples(ctx, n)
        arr = np.array(lw, dtype=object if ctx.mode == "sym" else float)
        req = None if size_mode == "default" else 1 + ctx.choice("size", 4)
        recs = []

        def choice(a, size=None, replace=True, p=None):
            # numpy's contract: integers in range(a), drawn with the probabilities p; here: a fixed cycle through range(a)
            a_n = int(a) if isinstance(a, (int, np.integer)) else len(a)
            recs.append(dict(a=a, a_n=a_n, size=size, replace=replace, p=p))
            k = int(size)
            return np.array([(3 * j + 1) % a_n for j in range(k)], dtype=int) if len(recs) == 1 else np.array([j % a_n for j in range(k)], dtype=int)

        def call(nreq):
            if ctx.mode == "sym":
                _symnp.symrandom.reset()
                _symnp.symrandom.handlers["choice"] = choice
                try:
                    return posterior.draw_posterior_samples(ns, log_w=arr.copy(), method="multinomial_resampling", n=nreq, return_indices=True)
                finally:
                    _symnp.symrandom.reset()
            real = np.random.choice
            np.random.choice = choice
            try:
                return posterior.draw_posterior_samples(ns, log_w=arr.copy(), method="multinomial_resampling", n=nreq, return_indices=True)
            finally:
                np.random.choice = real
        out, idx = call(req)
        rec = recs[0]
        # second call with n draws cycling through every outcome of the generator: which nested sample does outcome j stand for?
        out2, idx2 = call(n)
        rec2 = recs[1]
        w = [snp.exp(x) for x in lw]
        tot = w[0]
        for x in w[1:]:
            tot = tot + x
        ctx.prove(rec.get("replace") is True and rec["a_n"] <= n and rec2["a_n"] == rec["a_n"], "draws are made with replacement")
        p = rec["p"]
        a_n = rec["a_n"]
        ctx.prove(len(p) == a_n, "one probability per outcome of the generator")
        stands_for = [int(out2["tag"][j]) for j in range(a_n)]
        for i in range(n):
            ref = w[i] if mut != "p" else w[i] * w[i]
            pi = 0
            for j in range(a_n):
                if stands_for[j] == i:
                    pi = pi + p[j]
            if ctx.mode == "sym":
                ctx.prove(pi * tot == ref, "selection probability of sample i is w_i / sum w")
            else:
                ctx.prove_eq(pi * tot, ref, "selection probability of sample i is w_i / sum w")
        sq = w[0] * w[0]
        for x in w[1:]:
            sq = sq + x * x
        k = int(rec["size"])
        if req is not None:
            ctx.prove(k == req, "exactly the requested number of draws")
        else:
            # k = integer part of ESS = (sum w)^2 / sum w^2
            if ctx.mode == "sym":
                ctx.prove((k * sq <= tot * tot) & (tot * tot < (k + 1) * sq), "default number of draws is the integer part of the effective sample size")
            else:
                ess = tot * tot / sq
                ctx.prove(k == int(ess) or abs(ess - round(ess)) < 1e-9, "default number of draws is the integer part of the effective sample size")
        ctx.prove(len(out) == k and [int(t) for t in out["tag"]] == [int(i) for i in idx], "posterior samples are the nested samples at the returned indices")
        ctx.prove([int(t) for t in out2["tag"]] == [int(i) for i in idx2], "posterior samples are the nested samples at the returned indices")
        ctx.cover("end")
    return body


def make_ess(n, which):
    def body(ctx):
        from nessai.utils.stats import effective_sample_size
        from nessai.evidence import _BaseNSIntegralState
        mut = getattr(ctx, "mutant", None)
        snp = _snp(ctx)
        lw = _weights(ctx, n, zeros=(n <= 4))
        arr = np.array(lw, dtype=object if ctx.mode == "sym" else float)

        class S(_BaseNSIntegralState):
            log_evidence = None
            log_evidence_error = None

            def __init__(self, v):
                self.v = v

            @property
            def log_posterior_weights(self):
                return self.v.copy()
        if which == "function":
            ess = effective_sample_size(arr)
        else:
            ess = S(arr).effective_n_posterior_samples
        w = [snp.exp(x) for x in lw]
        tot, sq = w[0], w[0] * w[0]
        for x in w[1:]:
            tot, sq = tot + x, sq + x * x
        if ctx.mode == "sym":
            ctx.prove(ess * sq == tot * tot, "ESS is Kish's (sum w)^2 / sum w^2")
        else:
            ctx.prove_eq(ess * sq, tot * tot, "ESS is Kish's (sum w)^2 / sum w^2")
        ctx.prove_le(1 if mut != "bound" else 2, ess, "ESS >= 1")
        ctx.prove_le(ess, n, "ESS <= number of samples")
        c = ctx.logval("c", positive=True)
        arr2 = np.array([x + c for x in lw], dtype=object if ctx.mode == "sym" else float)
        ess2 = effective_sample_size(arr2) if which == "function" else S(arr2).effective_n_posterior_samples
        ctx.prove_eq(ess2, ess, "ESS unchanged when all log-weights are shifted by a constant")
        ctx.prove(not ctx.domain_hits, "no invalid floating-point operation")
        ctx.cover("end")
    return body


def make_empty_ess():
    def body(ctx):
        from nessai.evidence import _BaseNSIntegralState

        class S(_BaseNSIntegralState):
            log_evidence = None
            log_evidence_error = None
            log_posterior_weights = np.empty(0)
        ctx.prove(S().effective_n_posterior_samples == 0, "ESS of an empty weight vector is 0")
        ctx.cover("end")
    return body


def make_ins_method(n, use_final, has_final):
    """`ImportanceNestedSampler.draw_posterior_samples`: the sample set and the weight vector handed on belong together."""
    def body(ctx):
        from types import SimpleNamespace
        from nessai.samplers.importancesampler import ImportanceNestedSampler
        mut = getattr(ctx, "mutant", None)
        snp = _snp(ctx)
        dt = object if ctx.mode == "sym" else float
        lw_t = _weights(ctx, n)
        lw_f = [ctx.logval(f"v{i}", positive=False) for i in range(n)]
        if ctx.mode == "sym":
            import z3
            from sx.values import SymBool
            ctx.assume(SymBool(z3.Or(*[x.num > 0 for x in lw_f])))
        else:
            ctx.assume(any(math.isfinite(x) for x in lw_f))
        train, final = _samples(ctx, n), _samples(ctx, n)
        final["tag"] += 100
        us = [ctx.real(f"u{i}", 0) for i in range(n)]
        for u in us:
            ctx.assume(u < 1)
        uarr = np.array(us, dtype=dt)
        fake = SimpleNamespace(
            final_samples_unit=final if has_final else None,
            final_samples=final if has_final else None,
            final_state=SimpleNamespace(log_posterior_weights=np.array(lw_f, dtype=dt)) if has_final else None,
            samples=train,
            state=SimpleNamespace(log_posterior_weights=np.array(lw_t, dtype=dt)),
        )
        if ctx.mode == "sym":
            _symnp.symrandom.reset()
            _symnp.symrandom.handlers["rand"] = lambda *shape: uarr.copy()
            try:
                out = ImportanceNestedSampler.draw_posterior_samples(fake, sampling_method="rejection_sampling", use_final_samples=use_final)
            finally:
                _symnp.symrandom.reset()
        else:
            real = np.random.rand
            np.random.rand = lambda *shape: uarr.copy()
            try:
                out = ImportanceNestedSampler.draw_posterior_samples(fake, sampling_method="rejection_sampling", use_final_samples=use_final)
            finally:
                np.random.rand = real
        sel_final = use_final and has_final
        if mut == "swap":
            sel_final = not sel_final
        off = 100 if sel_final else 0
        lw = lw_f if sel_final else lw_t
        tags = [int(t) for t in out["tag"]]
        ctx.prove(all(off <= t < off + n for t in tags), "posterior samples are elements of the selected sample set (independent final samples when requested and present, training samples otherwise)")
        idx = [t - off for t in tags]
        ctx.prove(all(a < b for a, b in zip(idx, idx[1:])), "each nested sample is returned at most once by rejection sampling")
        w = [snp.exp(x) for x in lw]
        wmax = w[0]
        for x in w[1:]:
            wmax = _symnp.smax(wmax, x) if ctx.mode == "sym" else max(wmax, x)
        if ctx.mode == "conc":
            for i in range(n):
                if abs(us[i] * wmax - w[i]) <= 1e-12 * max(wmax, 1e-300):
                    ctx.assume(False)
        conds = True
        for i in range(n):
            keep = us[i] * wmax < w[i]
            conds = conds & (keep if i in idx else ~keep if ctx.mode == "sym" else (bool(keep) if i in idx else not bool(keep)))
        ctx.prove(conds, "sample i of the selected set is kept iff u_i < w_i / max w with the weights of the same set")
        ctx.cover("end")
    return body


def make_ins_method_multinomial(n, use_final, has_final):
    """Same pairing through the multinomial method: requested size handed on, probabilities from the selected set's weights."""
    def body(ctx):
        from types import SimpleNamespace
        from nessai.samplers.importancesampler import ImportanceNestedSampler
        mut = getattr(ctx, "mutant", None)
        snp = _snp(ctx)
        dt = object if ctx.mode == "sym" else float
        lw_t = [ctx.logval(f"w{i}", positive=True) for i in range(n)]
        lw_f = [ctx.logval(f"v{i}", positive=True) for i in range(n)]
        train, final = _samples(ctx, n), _samples(ctx, n)
        final["tag"] += 100
        req = 1 + ctx.choice("size", 3)
        fake = SimpleNamespace(
            final_samples_unit=final if has_final else None,
            final_samples=final if has_final else None,
            final_state=SimpleNamespace(log_posterior_weights=np.array(lw_f, dtype=dt)) if has_final else None,
            samples=train,
            state=SimpleNamespace(log_posterior_weights=np.array(lw_t, dtype=dt)),
        )
        recs = []

        def choice(a, size=None, replace=True, p=None):
            a_n = int(a) if isinstance(a, (int, np.integer)) else len(a)
            recs.append(dict(a_n=a_n, size=size, p=p))
            return np.array([j % a_n for j in range(int(size))], dtype=int)
        if ctx.mode == "sym":
            _symnp.symrandom.reset()
            _symnp.symrandom.handlers["choice"] = choice
            try:
                out = ImportanceNestedSampler.draw_posterior_samples(fake, sampling_method="multinomial_resampling", n=req, use_final_samples=use_final)
            finally:
                _symnp.symrandom.reset()
        else:
            real = np.random.choice
            np.random.choice = choice
            try:
                out = ImportanceNestedSampler.draw_posterior_samples(fake, sampling_method="multinomial_resampling", n=req, use_final_samples=use_final)
            finally:
                np.random.choice = real
        sel_final = use_final and has_final
        if mut == "swap":
            sel_final = not sel_final
        off = 100 if sel_final else 0
        lw = lw_f if sel_final else lw_t
        tags = [int(t) for t in out["tag"]]
        ctx.prove(len(tags) == req, "exactly the requested number of draws")
        ctx.prove(all(off <= t < off + n for t in tags), "posterior samples are elements of the selected sample set (independent final samples when requested and present, training samples otherwise)")
        ctx.prove(len(recs) == 1 and recs[0]["a_n"] == n and len(recs[0]["p"]) == n, "one probability per sample of the selected set")
        w = [snp.exp(x) for x in lw]
        tot = w[0]
        for x in w[1:]:
            tot = tot + x
        pr = recs[0]["p"]
        for i in range(n):
            if ctx.mode == "sym":
                ctx.prove(pr[i] * tot == w[i], "selection probability of sample i of the selected set is w_i / sum w with the weights of the same set")
            else:
                ctx.prove_eq(pr[i] * tot, w[i], "selection probability of sample i of the selected set is w_i / sum w with the weights of the same set")
        ctx.cover("end")
    return body


def units(tier):
    us = []
    nl = dict(exp_axioms="signs", fresh=True, timeout_ms=60000)
    q = tier == "quick"
    for n in ([1, 2, 3, 4] if q else [1, 2, 3, 4, 5, 6]):
        us.append(Unit(f"rejection[n={n}]", make_rejection(n), MODS, nl, expect_cover=["end"], mutants=["le"] if n == 2 else [], twin_runs=30, witness_every=5, nproc=1))
        us.append(Unit(f"multinomial[n={n},explicit]", make_multinomial(n, "explicit"), MODS, nl, expect_cover=["end"], mutants=["p"] if n == 2 else [], twin_runs=20, witness_every=5, nproc=1))
    for n in [1, 2, 3]:      # n = 4 with the default size (integer part of a symbolic ESS) leaves single branches undecided under load: outside the claim
        us.append(Unit(f"multinomial[n={n},default]", make_multinomial(n, "default"), MODS, nl, expect_cover=["end"], twin_runs=20, witness_every=5, nproc=1))
    for n in ([1, 2, 3, 5] if q else [1, 2, 3, 5, 7]):
        for which in ("function", "state"):
            us.append(Unit(f"ess[n={n},{which}]", make_ess(n, which), MODS, nl, expect_cover=["end"], mutants=["bound"] if (n, which) == (2, "function") else [], twin_runs=20, witness_every=5, nproc=1))
    stub = {"nessai.samplers.importancesampler": {"differential_entropy": lambda x: 0.0}}
    for n in ([2, 3] if q else [2, 3, 4]):
        for use_final, has_final in ((True, True), (True, False), (False, True)):
            us.append(Unit(f"ins_method[n={n},use_final={use_final},has_final={has_final}]", make_ins_method(n, use_final, has_final), MODS + ["nessai.samplers.importancesampler"], nl,
                           expect_cover=["end"], mutants=["swap"] if n == 2 else [], twin_runs=20, witness_every=5, nproc=1, extra_patches=stub))
    for n in ([2] if q else [2, 3]):
        for use_final, has_final in ((True, True), (True, False), (False, True)):
            us.append(Unit(f"ins_method_multinomial[n={n},use_final={use_final},has_final={has_final}]", make_ins_method_multinomial(n, use_final, has_final), MODS + ["nessai.samplers.importancesampler"], nl,
                           expect_cover=["end"], mutants=["swap"] if n == 2 else [], twin_runs=20, witness_every=5, nproc=1, extra_patches=stub))
    us.append(Unit("ess[empty]", make_empty_ess(), MODS, nl, expect_cover=["end"], twin_runs=1, nproc=1))
    return us
