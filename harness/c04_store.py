"""C04 - INS sample store stays sorted, partitioned and aligned under all updates.

Inductive step per operation of the real `OrderedSamples`, from an arbitrary
valid pre-state (m sorted symbolic likelihoods, arbitrary live/discarded
partition, aligned density rows) with a symbolic batch / threshold; plus short
compositions from the initial insertion.
"""
import contextlib

import numpy as np

from sx.runner import Unit

ID = "C04"
FUNCTIONS = [
    "nessai.samplers.importancesampler.OrderedSamples.sort_samples",
    "nessai.samplers.importancesampler.OrderedSamples.add_initial_samples",
    "nessai.samplers.importancesampler.OrderedSamples.add_samples",
    "nessai.samplers.importancesampler.OrderedSamples.add_to_nested_samples",
    "nessai.samplers.importancesampler.OrderedSamples.remove_samples",
    "nessai.samplers.importancesampler.OrderedSamples.update_log_likelihood_threshold",
    "nessai.samplers.importancesampler.OrderedSamples.finalise",
    "nessai.samplers.importancesampler.OrderedSamples.live_points",
    "nessai.samplers.importancesampler.OrderedSamples.nested_samples",
    "nessai.utils.structures.get_inverse_indices",
    "nessai.utils.structures.get_subset_arrays",
]
BOUNDS = {
    "quick": dict(store_m="0..3", batch_k="1..2", composition_depth=2, modes=4),
    "thorough": dict(store_m="0..5 (batch 3 up to store 4)", batch_k="1..3", composition_depth="<=3 batch insertions after the initial one, <=6 samples in total", modes=4),
}
SCOPE = ("Likelihoods are symbolic reals (ties and below/equal/above-threshold cases are branches of the path tree, "
         "not samples); identity of a sample is a concrete tag carried in a field and in its density row.")
ASSUMPTIONS = [
    "likelihood values are non-NaN doubles: comparison of doubles = comparison of the reals they denote",
    "numpy's object-dtype argsort/searchsorted/insert implement the documented semantics (order of tied elements after a sort is whatever numpy's algorithm yields; every oracle accepts any order among ties)",
    "`_INSIntegralState.update_evidence` is replaced by a recorder in the finalise unit (it is C05's subject)",
]
OUTSIDE = ["stores larger than the bound", "long random sequences with large batches", "NaN likelihoods"]


def _dtype(ctx):
    f = "O" if ctx.mode == "sym" else "f8"
    return np.dtype([("x", f), ("logL", f), ("tag", "i8")])


def _mk(ctx, vals, tag0):
    a = np.empty(len(vals), dtype=_dtype(ctx))
    for i, v in enumerate(vals):
        a[i] = (0.0, v, tag0 + i)
    return a


def _rows(tags, P):
    return np.array([[10.0 * t + j for j in range(P)] for t in tags], dtype=float).reshape(len(tags), P)


def _conj(ctx, conds):
    r = True
    for c in conds:
        r = r & c
    return r


def _check_store(ctx, os_, orig, P, pre=""):
    """Invariants that must hold after every operation."""
    s = os_.samples
    n = len(s)
    tags = [int(t) for t in s["tag"]]
    ctx.prove(sorted(tags) == sorted(orig.keys()), pre + "every sample ever added present exactly once")
    ctx.prove(_conj(ctx, [s["logL"][i] <= s["logL"][i + 1] for i in range(n - 1)]), pre + "store sorted by likelihood")
    ctx.prove(_conj(ctx, [s["logL"][i] == orig[tags[i]] for i in range(n)]), pre + "stored likelihood unmodified")
    ctx.prove(os_.log_q.shape == (n, P) and bool(np.all(os_.log_q == _rows(tags, P))), pre + "density rows attached to their samples")
    live = os_.live_points_indices
    dead = os_.nested_samples_indices
    live_l = [] if live is None else [int(i) for i in live]
    dead_l = [int(i) for i in dead]
    ctx.prove(all(a < b for a, b in zip(live_l, live_l[1:])), pre + "live indices strictly increasing")
    ctx.prove(all(a < b for a, b in zip(dead_l, dead_l[1:])), pre + "discarded indices strictly increasing")
    ctx.prove(sorted(live_l + dead_l) == list(range(n)), pre + "live and discarded partition the store")
    return tags, live_l, dead_l


def _prestate(ctx, OS, m, P, strict, replace_all):
    """Arbitrary valid store of size m."""
    os_ = OS(strict_threshold=strict, replace_all=replace_all)
    vals = [ctx.real(f"L{i}") for i in range(m)]
    for i in range(m - 1):
        ctx.assume(vals[i] <= vals[i + 1])
    orig = {i: vals[i] for i in range(m)}
    os_.samples = _mk(ctx, vals, 0)
    os_.log_q = _rows(range(m), P)
    T = None
    if strict:
        T = ctx.real("T0")
        os_.log_likelihood_threshold = T
        nlow = 0
        # partition induced by the threshold; a threshold above every sample is excluded from the
        # *pre-state* only when there are samples (the invariant "live = samples >= T" then has an empty live set)
        for i in range(m):
            if vals[i] < T:
                nlow = i + 1
        os_.nested_samples_indices = np.arange(nlow, dtype=int)
        os_.live_points_indices = np.arange(nlow, m, dtype=int)
    else:
        isl = [ctx.choice("live", 2) for _ in range(m)]
        os_.live_points_indices = np.array([i for i in range(m) if isl[i]], dtype=int)
        os_.nested_samples_indices = np.array([i for i in range(m) if not isl[i]], dtype=int)
    return os_, orig, T


def make_add(m, k, strict, P=2):
    def body(ctx):
        from nessai.samplers.importancesampler import OrderedSamples
        os_, orig, T = _prestate(ctx, OrderedSamples, m, P, strict, False)
        old_live = set(int(os_.samples["tag"][i]) for i in os_.live_points_indices)
        old_dead = set(int(os_.samples["tag"][i]) for i in os_.nested_samples_indices)
        new = [ctx.real(f"B{j}") for j in range(k)]
        for j in range(k):
            orig[m + j] = new[j]
        batch = _mk(ctx, new, m)
        os_.add_samples(batch, _rows(range(m, m + k), P))
        tags, live, dead = _check_store(ctx, os_, orig, P)
        live_t = set(tags[i] for i in live)
        mut = getattr(ctx, "mutant", None)
        if strict:
            s = os_.samples
            conds = []
            for i in range(len(s)):
                if (i in live) != (mut == "flip"):
                    conds.append(s["logL"][i] >= T)
                else:
                    conds.append(s["logL"][i] < T)
            ctx.prove(_conj(ctx, conds), "strict: live set is exactly the samples at or above the threshold")
        else:
            if mut == "flip":
                ctx.prove(old_live <= set(tags[i] for i in dead), "MUTANT")
            ctx.prove(old_live <= live_t, "soft: previously live samples stay live")
            ctx.prove(old_dead.isdisjoint(live_t), "soft: previously discarded samples stay discarded")
            ctx.prove(set(range(m, m + k)) <= live_t, "soft: new samples are live")
        ctx.cover("end")
    return body


def make_remove(m, strict, replace_all, P=2):
    def body(ctx):
        from nessai.samplers.importancesampler import OrderedSamples
        os_, orig, T0 = _prestate(ctx, OrderedSamples, m, P, strict, replace_all)
        T = ctx.real("T")
        if strict:
            # thresholds only move up in strict mode (samples below the old threshold are already discarded)
            ctx.assume(T >= T0)
        s0 = os_.samples
        live0 = [int(i) for i in os_.live_points_indices]
        if not live0:
            ctx.assume(False)  # the sampler never calls remove_samples without live points
        dead0 = [int(i) for i in os_.nested_samples_indices]
        below = [i for i in live0 if s0["logL"][i] < T]
        os_.update_log_likelihood_threshold(T)
        n = os_.remove_samples()
        mut = getattr(ctx, "mutant", None)
        tags, live, dead = _check_store(ctx, os_, orig, P)
        if replace_all:
            ctx.prove(int(n) == len(live0) + (1 if mut == "flip" else 0), "replace-all: reported number removed = all live samples")
            ctx.prove(live == [] and sorted(dead) == sorted(live0 + dead0), "replace-all: every live sample moved to discarded")
        else:
            ctx.prove(int(n) == len(below) + (1 if mut == "flip" else 0), "reported number removed = live samples strictly below the threshold")
            ctx.prove(sorted(dead) == sorted(dead0 + below), "exactly the live samples below the threshold were moved")
            ctx.prove(live == [i for i in live0 if i not in below], "the other live samples stay live")
        ctx.cover("end")
    return body


def make_compose(k0, ks, strict, replace_all, P=2):
    """initial insertion + (threshold update, removal, batch insertion)* + finalise, from scratch."""
    def body(ctx):
        from nessai.samplers.importancesampler import OrderedSamples
        os_ = OrderedSamples(strict_threshold=strict, replace_all=replace_all)
        os_.state = _RecorderState()
        orig = {}
        vals = [ctx.real(f"I{j}") for j in range(k0)]
        for j in range(k0):
            orig[j] = vals[j]
        os_.add_initial_samples(_mk(ctx, vals, 0), _rows(range(k0), P))
        _check_store(ctx, os_, orig, P, "initial: ")
        nt = k0
        for step, k in enumerate(ks):
            # the sampler chooses the threshold as the likelihood of a live sample
            live = os_.live_points
            c = ctx.choice("thr", len(live))
            T = live["logL"][c]
            live_before = [int(i) for i in os_.live_points_indices]
            lv = os_.samples["logL"]
            below = [i for i in live_before if lv[i] < T]
            os_.update_log_likelihood_threshold(T)
            n = os_.remove_samples()
            if replace_all:
                ctx.prove(int(n) == len(live_before), f"step{step}: replace-all count")
            else:
                ctx.prove(int(n) == len(below), f"step{step}: number removed = live strictly below threshold")
            new = [ctx.real(f"S{step}_{j}") for j in range(k)]
            for j in range(k):
                orig[nt + j] = new[j]
            os_.add_samples(_mk(ctx, new, nt), _rows(range(nt, nt + k), P))
            nt += k
            tags, live_i, dead_i = _check_store(ctx, os_, orig, P, f"step{step}: ")
            if strict:
                s = os_.samples
                ctx.prove(_conj(ctx, [(s["logL"][i] >= T) if i in live_i else (s["logL"][i] < T) for i in range(len(s))]),
                          f"step{step}: strict live set = samples at or above threshold")
        os_.finalise()
        n = len(os_.samples)
        ctx.prove(os_.live_points_indices is None and [int(i) for i in os_.nested_samples_indices] == list(range(n)),
                  "finalise: every sample discarded exactly once, in order")
        ctx.prove(os_.state.calls == 1 and os_.state.last_n == n, "finalise: evidence updated from all samples")
        ctx.cover("end")
    return body


class _RecorderState:
    def __init__(self):
        self.calls = 0
        self.last_n = None

    def update_evidence(self, nested_samples=None, live_points=None):
        self.calls += 1
        self.last_n = len(nested_samples) + (0 if live_points is None else len(live_points))


PARALLEL_UNITS = True
MODS = ["nessai.samplers.importancesampler", "nessai.utils.structures"]


def units(tier):
    us = []
    if tier == "quick":
        add_sizes = [(0, 2), (1, 2), (2, 2), (3, 1), (3, 2)]
        rem_sizes = [1, 2, 3, 4]
        comps = [(2, (2,)), (2, (1, 2))]
    else:
        add_sizes = [(0, 3), (1, 3), (2, 3), (3, 3), (4, 2), (4, 3), (5, 2)]
        rem_sizes = [1, 2, 3, 4, 5, 6]
        comps = [(2, (2,)), (2, (1, 2)), (3, (2,)), (2, (2, 2)), (2, (1, 1, 1))]
    opts = dict(logic="QF_LRA")
    for strict in (False, True):
        for (m, k) in add_sizes:
            if m == 0 and strict:
                continue
            us.append(Unit(f"add[m={m},k={k},strict={strict}]", make_add(m, k, strict), MODS, opts,
                           expect_cover=["end"], mutants=["flip"] if (m, k) == add_sizes[2] else [], twin_runs=30,
                           witness_every=7 if tier == "quick" else 500, time_budget_s=600 if tier == "quick" else 2400))
        for ra in (False, True):
            for m in rem_sizes:
                us.append(Unit(f"remove[m={m},strict={strict},replace_all={ra}]", make_remove(m, strict, ra), MODS, opts,
                               expect_cover=["end"], mutants=["flip"] if m == 2 else [], twin_runs=30, witness_every=5))
            for (k0, ks) in comps:
                us.append(Unit(f"compose[k0={k0},ks={ks},strict={strict},replace_all={ra}]", make_compose(k0, ks, strict, ra),
                               MODS, opts, expect_cover=["end"], twin_runs=30, witness_every=25 if tier == "quick" else 500, time_budget_s=600 if tier == "quick" else 2400))
    return us
