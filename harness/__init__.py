REGISTRY = {
    "C01": "c01_liveset",
    "C02": "c02_evidence",
    "C04": "c04_store",
    "C10": "c10_batch",
    "C17": "c17_threshold",
}
