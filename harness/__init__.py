REGISTRY = {
    "C01": "c01_liveset",
    "C02": "c02_evidence",
    "C04": "c04_store",
    "C05": "c05_results",
    "C07": "c07_reparam",
    "C10": "c10_batch",
    "C11": "c11_crash",
    "C12": "c12_resume",
    "C13": "c13_signal",
    "C15": "c15_stopping",
    "C16": "c16_resampling",
    "C17": "c17_threshold",
}
