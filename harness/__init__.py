REGISTRY = {
    "C04": "c04_store",
}
