REGISTRY = {
    "C01": "c01_liveset",
    "C04": "c04_store",
}
