"""C18 - live-point conversions preserve names, order, values and defaults.

The real conversion functions and the `LivepointsConfig` registry are executed
on symbolic values (object-field structured arrays in symbolic mode, float
fields in the concrete replay), for every history of add/reset of extra fields
up to the bound.
"""
import contextlib
import math

import numpy as np

from sx.runner import Unit

ID = "C18"
FUNCTIONS = [
    "nessai.config.LivepointsConfig.non_sampling_parameters",
    "nessai.config.LivepointsConfig.non_sampling_defaults",
    "nessai.config.LivepointsConfig.non_sampling_dtype",
    "nessai.config.LivepointsConfig.reset",
    "nessai.config.LivepointsConfig.reset_properties",
    "nessai.livepoint.add_extra_parameters_to_live_points",
    "nessai.livepoint.reset_extra_live_points_parameters",
    "nessai.livepoint.get_dtype",
    "nessai.livepoint.empty_structured_array",
    "nessai.livepoint.parameters_to_live_point",
    "nessai.livepoint.numpy_array_to_live_points",
    "nessai.livepoint.dict_to_live_points",
    "nessai.livepoint.live_points_to_dict",
    "nessai.livepoint.live_points_to_array",
    "nessai.livepoint.dataframe_to_live_points",
]
BOUNDS = {
    "quick": dict(history="<=3 add/reset operations over the extra names {a,b,c} with symbolic defaults", names="1..3 parameters", points="0, 1, 2"),
    "thorough": dict(history="<=4 add/reset operations over the extra names {a,b,c} with symbolic defaults", names="1..4 parameters", points="0, 1, 2, 3"),
}
SCOPE = "Values are symbolic reals (plus NaN / inf constants as explicit choices); field names and order are concrete."
ASSUMPTIONS = [
    "numpy structured arrays with object fields behave like those with float64 fields for field assignment, indexing and np.array(list of tuples) (checked on every run by replaying solver-chosen inputs through float64 arrays)",
    "a pandas DataFrame is represented by its .values (rows) and .dtypes.index (column names)",
]
OUTSIDE = ["the zero-copy claim of unstructured_view (numpy memory layout and strides; executed only concretely)", "pandas itself", "more than 4 parameter names"]

PARALLEL_UNITS = True
MODS = ["nessai.livepoint"]


@contextlib.contextmanager
def setup(symbolic):
    from nessai import config
    from nessai.livepoint import reset_extra_live_points_parameters
    lp = config.livepoints
    old = (lp.default_float_dtype, lp.logl_dtype)
    reset_extra_live_points_parameters()
    if symbolic:
        lp.default_float_dtype = "O"
        lp.logl_dtype = "O"
        lp.reset_properties()
    try:
        yield
    finally:
        reset_extra_live_points_parameters()
        lp.default_float_dtype, lp.logl_dtype = old
        lp.reset_properties()


def _isnan(v):
    return isinstance(v, (float, np.floating)) and math.isnan(v)


def _same_value(ctx, got, want, label):
    if _isnan(want) or _isnan(got):
        return ctx.prove(_isnan(want) and _isnan(got), label)
    return ctx.prove_eq(got, want, label)


def _check_defaults(ctx, arr, names, extras, label):
    """Non-sampling fields of a freshly built array."""
    want = ["logP", "logL", "it"] + [e[0] for e in extras]
    ctx.prove(list(arr.dtype.names) == list(names) + want, label + ": fields are the parameters followed by logP, logL, it and the registered extras, in order")
    for i in range(len(arr)):
        ctx.prove(_isnan(arr["logP"][i]) and _isnan(arr["logL"][i]), label + ": log-prior and log-likelihood default to NaN")
        ctx.prove(int(arr["it"][i]) == 0, label + ": iteration defaults to 0")
        for (e, dv) in extras:
            _same_value(ctx, arr[e][i], dv, label + ": extra field takes its registered default")


def make_history(depth):
    def body(ctx):
        from nessai import config
        from nessai import livepoint as lpm
        mut = getattr(ctx, "mutant", None)
        lpm.reset_extra_live_points_parameters()   # the registry is global: every path starts from the initial layout
        extras = []          # model of the registry: list of (name, default)
        ops = []
        for step in range(depth):
            op = ctx.choice("op", 6)
            if op == 5:
                # the same new name twice within one call: registered once, with its first default
                d1, d2 = ctx.real(f"dup_a{step}"), ctx.real(f"dup_b{step}")
                lpm.add_extra_parameters_to_live_points(["c", "c"], [d1, d2])
                if "c" not in [e[0] for e in extras]:
                    extras.append(("c", d1))
                ops.append("add(c,c)")
            elif op == 4:
                lpm.reset_extra_live_points_parameters()
                extras = []
                ops.append("reset")
            elif op == 3:
                # two names at once with their own defaults (one of them may be registered already)
                da, db = ctx.real(f"pair_a{step}"), ctx.real(f"pair_b{step}")
                have = [e[0] for e in extras]
                lpm.add_extra_parameters_to_live_points(["a", "b"], [da, db])
                extras += [(n, dv) for n, dv in (("a", da), ("b", db)) if n not in have]
                ops.append("add(a,b)")
            else:
                name = "abc"[op]
                dv = ctx.real(f"default{step}")
                lpm.add_extra_parameters_to_live_points([name], [dv])
                if name not in [e[0] for e in extras]:
                    extras.append((name, dv))
                ops.append(f"add({name})")
            cfg = config.livepoints
            want_names = ["logP", "logL", "it"] + [e[0] for e in extras]
            if mut == "order" and len(extras) > 1:
                want_names = want_names[::-1]
            ctx.prove(list(cfg.non_sampling_parameters) == want_names, "registry: non-sampling parameters = core + extras in registration order (cache invalidated)")
            ctx.prove(len(cfg.non_sampling_defaults) == len(want_names) and len(cfg.non_sampling_dtype) == len(want_names), "registry: defaults and dtypes aligned one-to-one with the names")
            for j, (e, dv) in enumerate(extras):
                _same_value(ctx, cfg.non_sampling_defaults[3 + j], dv, "registry: default of an extra is the registered one")
            arr = lpm.empty_structured_array(2, names=["x", "y"])
            _check_defaults(ctx, arr, ["x", "y"], extras, "new array after " + ",".join(ops))
            ctx.prove(all(_isnan(v) for v in arr["x"]) and all(_isnan(v) for v in arr["y"]), "new array: parameters default to NaN")
            arr0 = lpm.empty_structured_array(2, names=["x", "y"], non_sampling_parameters=False)
            ctx.prove(list(arr0.dtype.names) == ["x", "y"], "without non-sampling fields only the parameters are present")
        ctx.cover("end")
    return body


class _DF:
    """What dataframe_to_live_points uses of a pandas DataFrame."""

    def __init__(self, rows, names):
        self.values = rows
        self.columns = list(names)

        class _DT:
            index = list(names)
        self.dtypes = _DT()

    def __getitem__(self, cols):
        idx = [self.columns.index(c) for c in cols]
        return _DF([[r[i] for i in idx] for r in self.values], list(cols))


SPECIAL = [None, math.nan, math.inf, -math.inf]


def make_conversions(k, n, with_extra):
    def body(ctx):
        from nessai import livepoint as lpm
        mut = getattr(ctx, "mutant", None)
        lpm.reset_extra_live_points_parameters()
        names = ["zeta", "alpha", "mid", "beta"][:k]   # deliberately not in alphabetical order
        extras = []
        if with_extra:
            dv = ctx.real("extra_default")
            lpm.add_extra_parameters_to_live_points(["e"], [dv])
            extras = [("e", dv)]
        f = object if ctx.mode == "sym" else float
        vals = np.empty((n, k), dtype=f)
        for i in range(n):
            for j in range(k):
                sp = SPECIAL[ctx.choice("special", len(SPECIAL))] if (i == 0 and j == 0) else None
                vals[i, j] = ctx.real(f"v{i}_{j}") if sp is None else sp
        # ---- plain array -> live points -> array -------------------------------------------------
        lp = lpm.numpy_array_to_live_points(vals.copy(), names)
        ctx.prove(len(lp) == n, "array -> live points: one live point per row")
        if n:
            _check_defaults(ctx, lp, names, extras, "array -> live points")
            for i in range(n):
                for j in range(k):
                    jj = j if mut != "swap" or k < 2 else (k - 1 - j)
                    _same_value(ctx, lp[names[j]][i], vals[i, jj], "array -> live points: value under its own name, in order")
            back = lpm.live_points_to_array(lp, names)
            ctx.prove(back.shape == (n, k), "live points -> array: shape (points, parameters)")
            for i in range(n):
                for j in range(k):
                    _same_value(ctx, back[i, j], vals[i, j], "live points -> array: same values in the same order")
        else:
            ctx.prove(list(lp.dtype.names) == names + ["logP", "logL", "it"] + [e[0] for e in extras], "empty input: correct fields")
        # the same conversion without the non-sampling fields: same dtype for 0, 1 and n points
        lpn = lpm.numpy_array_to_live_points(vals.copy(), names, non_sampling_parameters=False)
        ctx.prove(len(lpn) == n and list(lpn.dtype.names) == names, "array -> live points without non-sampling fields: only the parameters, for empty input too")
        for i in range(n):
            for j in range(k):
                _same_value(ctx, lpn[names[j]][i], vals[i, j], "array -> live points without non-sampling fields: values preserved")
        lpe = lpm.numpy_array_to_live_points(np.empty((0, k), dtype=f), names, non_sampling_parameters=False)
        ctx.prove(len(lpe) == 0 and lpe.dtype == lpn.dtype, "empty (0, d) input gives the same dtype as non-empty input, with and without non-sampling fields")
        lpe2 = lpm.numpy_array_to_live_points(np.empty((0, k), dtype=f), names)
        ctx.prove(len(lpe2) == 0 and lpe2.dtype == lpm.numpy_array_to_live_points(np.zeros((1, k), dtype=f), names).dtype, "empty (0, d) input gives the same dtype as non-empty input, with and without non-sampling fields")
        if n == 1:
            lp1 = lpm.numpy_array_to_live_points(vals[0].copy(), names)
            ctx.prove(len(lp1) == 1, "a single 1-d point becomes one live point")
            for j in range(k):
                _same_value(ctx, lp1[names[j]][0], vals[0, j], "single point: values preserved")
            p = lpm.parameters_to_live_point(tuple(vals[0]), names)
            ctx.prove(len(p) == 1, "parameters -> live point: one point")
            _check_defaults(ctx, p, names, extras, "parameters -> live point")
            for j in range(k):
                _same_value(ctx, p[names[j]][0], vals[0, j], "parameters -> live point: values preserved")
            pe = lpm.parameters_to_live_point((), names)
            ctx.prove(len(pe) == 0, "no parameters -> empty array")
        # ---- dictionaries ---------------------------------------------------------------------------------
        if n:
            d = lpm.live_points_to_dict(lp, names)
            ctx.prove(list(d.keys()) == names, "live points -> dict: keys are the names in order")
            for j in range(k):
                for i in range(n):
                    _same_value(ctx, d[names[j]][i], vals[i, j], "live points -> dict: values preserved")
            lp2 = lpm.dict_to_live_points(d)
            ctx.prove(len(lp2) == n, "dict -> live points: one live point per entry (round trip of live_points_to_dict)")
            if len(lp2) == n:
                _check_defaults(ctx, lp2, names, extras, "dict -> live points")
                for j in range(k):
                    for i in range(n):
                        _same_value(ctx, lp2[names[j]][i], vals[i, j], "dict -> live points: values preserved")
            if n == 1:
                ds = {names[j]: vals[0, j] for j in range(k)}
                lp3 = lpm.dict_to_live_points(ds)
                ctx.prove(len(lp3) == 1, "dict of scalars -> one live point")
                for j in range(k):
                    _same_value(ctx, lp3[names[j]][0], vals[0, j], "dict of scalars: values preserved")
            lp4 = lpm.dict_to_live_points({names[j]: vals[:, j].copy() for j in range(k)}, non_sampling_parameters=False)
            ctx.prove(list(lp4.dtype.names) == names, "dict -> live points without non-sampling fields")
            # ---- data frame -----------------------------------------------------------------------------
            df = _DF([list(vals[i]) for i in range(n)], list(names))
            lp5 = lpm.dataframe_to_live_points(df)
            ctx.prove(len(lp5) == n, "data frame -> live points: one per row")
            _check_defaults(ctx, lp5, names, extras, "data frame -> live points")
            for j in range(k):
                for i in range(n):
                    _same_value(ctx, lp5[names[j]][i], vals[i, j], "data frame -> live points: values preserved")
        ctx.cover("end")
    return body


def make_view():
    """Concrete only: the unstructured view shares memory with exactly the model parameters."""
    def body(ctx):
        from nessai import livepoint as lpm
        a = lpm.empty_structured_array(3, names=["x", "y"])
        a["x"], a["y"] = [1.0, 2.0, 3.0], [4.0, 5.0, 6.0]
        if ctx.mode == "conc":
            v = lpm.unstructured_view(a, names=["x", "y"])
            ctx.prove(v.shape == (3, 2) and np.shares_memory(v, a), "unstructured view is a window onto the same memory")
            v[0, 1] = 9.0
            ctx.prove(a["y"][0] == 9.0, "writing through the view changes the live point")
        ctx.cover("end")
    return body


def units(tier):
    us = []
    q = tier == "quick"
    opts = dict()
    us.append(Unit(f"registry_history[depth={3 if q else 4}]", make_history(3 if q else 4), MODS, opts, expect_cover=["end"], mutants=["order"], twin_runs=40,
                   witness_every=10, setup=setup, nproc=1))
    for k in ((1, 2, 3) if q else (1, 2, 3, 4)):
        for n in ((0, 1, 2) if q else (0, 1, 2, 3)):
            for we in (False, True):
                us.append(Unit(f"conversions[k={k},n={n},extra={we}]", make_conversions(k, n, we), MODS, opts, expect_cover=["end"],
                               mutants=["swap"] if (k, n, we) == (2, 2, False) else [], twin_runs=10, witness_every=1, setup=setup, nproc=1))
    us.append(Unit("unstructured_view", make_view(), [], opts, expect_cover=["end"], twin_runs=2, setup=setup, nproc=1))
    return us
