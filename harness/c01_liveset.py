"""C01 - live set evolves only by likelihood-constrained replacement.

Inductive step of the real `NestedSampler.consume_sample` (+ yield_sample,
insert_live_point, _NSIntegralState.increment) from an arbitrary valid state,
against an arbitrary proposal obeying the `Proposal.draw` contract; the initial
step (`populate_live_points`), the final step (`finalise`) and a short
composition populate -> consume* -> finalise.
"""
import contextlib
import math

import numpy as np

from sx.engine import OutOfBound
from sx.runner import Unit

ID = "C01"
FUNCTIONS = [
    "nessai.samplers.nestedsampler.NestedSampler.consume_sample",
    "nessai.samplers.nestedsampler.NestedSampler.yield_sample",
    "nessai.samplers.nestedsampler.NestedSampler.insert_live_point",
    "nessai.samplers.nestedsampler.NestedSampler.populate_live_points",
    "nessai.samplers.nestedsampler.NestedSampler.finalise",
    "nessai.evidence._NSIntegralState.increment",
    "nessai.livepoint.empty_structured_array",
    "nessai.livepoint.get_dtype",
    "nessai.proposal.flowproposal.FlowProposal.convert_to_samples",
]
BOUNDS = {
    "quick": dict(nlive="1..4", candidates_offered_per_iteration="<=2 (pool may run empty after any draw)", populate="nlive<=3, <=nlive+2 candidates", composition="populate(<=3) + 2 x consume + finalise, 1 spare candidate",
                  flow_pool="nlive 2, two parameters, proposal parameter order = model order or reversed, one pool point"),
    "thorough": dict(nlive="1..6", candidates_offered_per_iteration="<=3 (pool may run empty after any draw)", populate="nlive<=4, <=nlive+2 candidates", composition="populate(<=3) + <=3 x consume + finalise, <=2 spare candidates",
                     flow_pool="nlive 1..3, two parameters, proposal parameter order = model order or reversed, one pool point"),
}
SCOPE = ("Live likelihoods, candidates' likelihoods and priors are symbolic reals; candidates may also be NaN, +inf, -inf, "
         "exactly 0.0 (re-evaluated by the sampler) and have prior -inf. Sample identity is a concrete tag field.")
ASSUMPTIONS = [
    "Proposal.draw contract: returns a record of the live-point dtype whose logP is the model prior (finite or -inf); `populated` is False exactly when the pool is exhausted",
    "the user model's evaluate_log_likelihood is an arbitrary function (fresh symbolic value per call)",
    "NestedSampler.check_state / update_state (training, plotting, checkpointing) are stubs in these units",
    "tqdm replaced by a no-op progress bar",
    "step_flow_pool: the x-space array handed to FlowProposal.convert_to_samples has its fields in the proposal's parameter order (model order or reversed), one point inside the prior box; the likelihood is filled in after the conversion, as populate does",
]
OUTSIDE = [
    "that flow proposals only offer in-bounds candidates (C09)", "resumed runs (C12/C13)",
    "iterations that need more candidates than the bound (counted as out-of-bound paths)",
    "nlive / candidate counts above the bound",
    "a proposed likelihood of exactly 0.0 (treated as not-yet-evaluated and re-evaluated) is explored in the step units only",
]

SPECIALS = ["sym", "nan", "+inf", "-inf"]


class _Bar:
    def __init__(self, *a, **k):
        pass

    def __enter__(self):
        return self

    def __exit__(self, *a):
        return False

    def update(self, *a):
        pass


class StubModel:
    names = ["x"]

    def __init__(self, ctx):
        self.ctx = ctx
        self.calls = 0

    def evaluate_log_likelihood(self, x):
        self.calls += 1
        return self.ctx.real(self.ctx.fresh("LLeval"))


class StubProposal:
    """Arbitrary proposal obeying the draw contract.

    Offers at most K candidates in total; after each draw the proposal chooses
    (nondeterministically) whether its pool is now exhausted.  A draw beyond the
    budget is outside the bound.
    """

    def __init__(self, ctx, dtype, K, tag0, specials=True, nonfinite_prior=True, nonzero=False):
        self.ctx, self.dtype, self.K = ctx, dtype, K
        self._populated = True
        self.next_tag = tag0
        self.offered = {}
        self.specials = specials
        self.nonfinite_prior = nonfinite_prior
        self.nonzero = nonzero
        self._checked_population = True

    @property
    def populated(self):
        # decided lazily, when the sampler looks: is the pool exhausted after the last draw?
        if self._populated is None:
            self._populated = not self.ctx.choice("exhausted", 2)
        return self._populated

    def draw(self, old):
        ctx = self.ctx
        if len(self.offered) >= self.K:
            raise OutOfBound("more candidates needed than the bound")
        t = self.next_tag
        self.next_tag += 1
        kind = "sym"
        if self.nonfinite_prior and ctx.choice("logPkind", 2):
            P = -math.inf
        else:
            P = ctx.real(f"cP{t}")
            if self.specials:
                kind = SPECIALS[ctx.choice("logLkind", len(SPECIALS))]
        if kind == "sym":
            L = ctx.real(f"cL{t}")
            if self.nonzero:
                ctx.assume(L != 0)
        elif kind == "+inf":
            L = math.inf
        elif kind == "-inf":
            L = -math.inf
        else:
            L = math.nan
        rec = np.empty(1, dtype=self.dtype)
        rec["x"] = ctx.real(f"cx{t}")
        rec["logP"] = P
        rec["logL"] = L
        rec["it"] = 0
        rec["tag"] = t
        self.offered[t] = dict(logL=L, logP=P, kind=kind, x=rec["x"][0])
        self._populated = None
        return rec[0]


@contextlib.contextmanager
def setup(symbolic):
    from nessai import config
    from nessai.livepoint import add_extra_parameters_to_live_points, reset_extra_live_points_parameters
    if symbolic:
        lp = config.livepoints
        old = (lp.default_float_dtype, lp.logl_dtype)
        lp.default_float_dtype = "O"
        lp.logl_dtype = "O"
        lp.reset_properties()
    add_extra_parameters_to_live_points(["tag"], [-1])
    try:
        yield
    finally:
        reset_extra_live_points_parameters()
        if symbolic:
            lp.default_float_dtype, lp.logl_dtype = old
            lp.reset_properties()


def _conj(conds):
    r = True
    for c in conds:
        r = r & c
    return r


def _sampler(ctx, nlive, state="real"):
    from nessai.samplers.nestedsampler import NestedSampler
    from nessai.evidence import _NSIntegralState
    ns = NestedSampler.__new__(NestedSampler)
    ns.nlive = nlive
    ns.model = StubModel(ctx)
    ns.nested_samples = []
    ns.insertion_indices = []
    ns.acceptance_history = []
    ns.accepted = 0
    ns.rejected = 0
    ns.block_acceptance = 0.0
    ns.block_iteration = 0
    ns.mean_block_acceptance = 0.0
    ns.debug_enabled = True  # also run the debug f-string
    ns.log_on_iteration = True
    ns.iteration = 0
    ns.logLmin = -np.inf
    ns.logLmax = -np.inf
    ns.condition = np.inf
    ns.live_points = None
    ns.finalised = False
    ns.check_state_calls = 0

    def check_state(force=False):
        ns.check_state_calls += 1
    ns.check_state = check_state
    ns.update_state_calls = 0

    def update_state(force=False):
        ns.update_state_calls += 1
    ns.update_state = update_state
    ns.state = _NSIntegralState(nlive, track_gradients=False)
    return ns


def _dtype():
    from nessai.livepoint import get_dtype
    return get_dtype(["x"])


def make_step(N, K):
    def body(ctx):
        mut = getattr(ctx, "mutant", None)
        dt = _dtype()
        ns = _sampler(ctx, N)
        # arbitrary valid pre-state: N live points ascending, it-th iteration
        Ls = [ctx.real(f"L{i}") for i in range(N)]
        for i in range(N - 1):
            ctx.assume(Ls[i] <= Ls[i + 1])
        live = np.empty(N, dtype=dt)
        pre = {}
        for i in range(N):
            live[i] = (ctx.real(f"x{i}"), ctx.real(f"P{i}"), Ls[i], 0, i)
            pre[i] = dict(x=live["x"][i], logP=live["logP"][i], logL=Ls[i], it=0)
        ns.live_points = live
        prev = ctx.real("prevL")  # likelihood of the previously discarded point
        ctx.assume(prev <= Ls[0])
        lmax = ctx.real("logLmax")
        ctx.assume(lmax >= Ls[N - 1])
        ns.logLmax = lmax
        ns.logLmin = prev
        it0 = 1 + ctx.choice("iteration", 2)
        ns.iteration = it0
        ns.state.logLs = [-np.inf, prev]
        ns.state.log_vols = [0.0, -1.0 / N]
        ns.state.logw = -1.0 / N
        ns.state.logZ = ctx.logval("Z0", positive=True)
        ns.state.info = [0.0]
        ns.proposal = StubProposal(ctx, dt, K, tag0=100)

        ns.consume_sample()

        lp = ns.live_points
        ctx.prove(len(lp) == N, "live set keeps its size")
        ctx.prove(_conj([lp["logL"][i] <= lp["logL"][i + 1] for i in range(N - 1)]), "live set ascending in likelihood")
        ctx.prove(len(ns.nested_samples) == 1 and int(ns.nested_samples[0]["tag"]) == 0, "removed point is the current minimum, recorded once")
        worst = ns.nested_samples[0]
        ctx.prove_eq(worst["logL"], Ls[0], "recorded likelihood of the removed point is its own")
        ctx.prove(len(ns.state.logLs) == 3, "evidence state received exactly one increment")
        ctx.prove_eq(ns.state.logLs[-1], Ls[0], "evidence state integrated the removed point's likelihood")
        tags = [int(t) for t in lp["tag"]]
        new = [t for t in tags if t >= 100]
        ctx.prove(len(new) == 1 and sorted(t for t in tags if t < 100) == list(range(1, N)), "exactly one new point; every other live point present once")
        if len(new) == 1:
            t = new[0]
            pos = tags.index(t)
            off = ns.proposal.offered[t]
            ctx.prove(not (isinstance(off["logP"], float) and off["logP"] == -math.inf), "replacement has a prior that is not -inf")
            ctx.prove(off["kind"] != "nan" and off["kind"] != "-inf", "replacement likelihood is not NaN/-inf")
            if mut == "nonstrict":
                ctx.prove(lp["logL"][pos] > Ls[0] + 1, "MUTANT")
            ctx.prove(lp["logL"][pos] > Ls[0], "replacement likelihood strictly greater than the removed one")
            ctx.prove(ns.insertion_indices == [pos if mut != "index" else pos + 1], "recorded insertion index is the position the new point occupies")
            ctx.prove(int(lp["it"][pos]) == it0 + 1, "new point stamped with the iteration")
            ctx.prove_eq(lp["x"][pos], off["x"], "replacement parameters are the proposed ones")
            if off["kind"] == "sym":
                # a proposed likelihood of exactly 0.0 is treated as "not evaluated" and re-evaluated by the sampler
                ctx.prove((lp["logL"][pos] == off["logL"]) | (off["logL"] == 0), "replacement likelihood is the proposed one (or re-evaluated when 0)")
            ctx.prove_eq(lp["logP"][pos], off["logP"], "replacement prior is the proposed one")
            ctx.prove(ns.logLmax >= lp["logL"][pos], "logLmax dominates the new point")
            ctx.cover("replaced")
        for i, t in enumerate(tags):
            if t < 100:
                ctx.prove(_conj([lp["x"][i] == pre[t]["x"], lp["logP"][i] == pre[t]["logP"], lp["logL"][i] == pre[t]["logL"]])
                          and int(lp["it"][i]) == 0, "other live points untouched")
        ctx.prove(ns.iteration == it0 + 1, "iteration advanced by one")
        ctx.prove_eq(ns.logLmin, Ls[0], "logLmin is the removed likelihood")
        # consequently the next removed likelihood is >= this one
        ctx.prove(lp["logL"][0] >= Ls[0], "next minimum not below the removed likelihood")
        ctx.cover("end")
    return body


class PoolProposal:
    """Hands out the points of a pool produced by the real FlowProposal.convert_to_samples."""

    def __init__(self, pool):
        self.pool, self.i = pool, 0
        self._checked_population = True

    @property
    def populated(self):
        return self.i < len(self.pool)

    def draw(self, old):
        if self.i >= len(self.pool):
            raise OutOfBound("more candidates needed than the pool holds")
        p = self.pool[self.i]
        self.i += 1
        return p


def make_step_flow_pool(N):
    """One iteration whose replacement comes out of the real FlowProposal.convert_to_samples, for a proposal whose
    parameters are ordered differently from the model's (reparameterisations are added in the user's order): the
    sampler copies the pool point into the live set, which must then hold the proposed point parameter by parameter."""
    def body(ctx):
        from nessai.livepoint import get_dtype
        from nessai.proposal.flowproposal import FlowProposal
        names = ["x", "y"]
        order = [["x", "y"], ["y", "x"]][ctx.choice("proposal_parameter_order", 2)]
        lo = {n: ctx.real(f"lo_{n}", -5, 5) for n in names}
        hi = {n: ctx.real(f"hi_{n}", -5, 5) for n in names}
        ctx.assume(_conj([lo[n] < hi[n] for n in names]))
        ns = _sampler(ctx, N)
        ns.model.names = names
        dt = get_dtype(names)
        Ls = [ctx.real(f"L{i}") for i in range(N)]
        for i in range(N - 1):
            ctx.assume(Ls[i] <= Ls[i + 1])
        live = np.empty(N, dtype=dt)
        for i in range(N):
            live["x"][i], live["y"][i] = ctx.real(f"x{i}"), ctx.real(f"y{i}")
            live["logP"][i], live["logL"][i], live["it"][i], live["tag"][i] = ctx.real(f"P{i}"), Ls[i], 0, i
        ns.live_points = live
        prev = ctx.real("prevL")
        ctx.assume(prev <= Ls[0])
        ns.logLmax, ns.logLmin, ns.iteration = Ls[N - 1], prev, 1
        ns.state.logLs, ns.state.log_vols, ns.state.logw = [-np.inf, prev], [0.0, -1.0 / N], -1.0 / N
        ns.state.logZ, ns.state.info = ctx.logval("Z0", positive=True), [0.0]
        # the proposal's x-space array, fields in the proposal's own order, one point inside the prior box
        fp = FlowProposal.__new__(FlowProposal)
        fp.use_x_prime_prior = False
        fp._plot_pool = False
        cand = {n: ctx.real(f"c_{n}", -5, 5) for n in names}
        ctx.assume(_conj([(cand[n] >= lo[n]) & (cand[n] <= hi[n]) for n in names]))
        cP, cL = ctx.real("cP"), ctx.real("cL")
        ctx.assume((cL > Ls[0]) & (cL != 0))

        class M:
            pass
        fp.model = M()
        fp.model.names = names
        fp.model.batch_evaluate_log_prior = lambda x: np.array([cP] * len(x), dtype=object if ctx.mode == "sym" else float)
        x = np.empty(1, dtype=get_dtype(order))
        for n in names:
            x[n][0] = cand[n]
        x["logL"][0], x["logP"][0], x["it"][0], x["tag"][0] = 0.0, 0.0, 0, 100
        pool = fp.convert_to_samples(x, plot=False)
        pool["logL"][0] = cL          # populate evaluates the likelihood after the conversion
        ns.proposal = PoolProposal(pool)
        ns.consume_sample()
        lp = ns.live_points
        tags = [int(t) for t in lp["tag"]]
        ctx.prove(tags.count(100) == 1, "the pool point entered the live set once")
        pos = tags.index(100)
        for n in names:
            ctx.prove_eq(lp[n][pos], cand[n], "replacement parameters are the proposed ones, parameter by parameter")
            ctx.prove((lp[n][pos] >= lo[n]) & (lp[n][pos] <= hi[n]), "replacement lies inside the prior bounds of each parameter")
        ctx.prove_eq(lp["logL"][pos], cL, "replacement likelihood is the proposed one")
        ctx.prove_eq(lp["logP"][pos], cP, "replacement prior is the proposed one")
        ctx.prove(ns.insertion_indices == [pos], "recorded insertion index is the position the new point occupies")
        ctx.cover("end")
    return body


def make_populate(N, K):
    def body(ctx):
        dt = _dtype()
        ns = _sampler(ctx, N)
        ns.proposal = StubProposal(ctx, dt, N + K, tag0=100, nonzero=True)
        ns.populate_live_points()
        lp = ns.live_points
        ctx.prove(len(lp) == N, "initial live set has nlive points")
        ctx.prove(_conj([lp["logL"][i] <= lp["logL"][i + 1] for i in range(N - 1)]), "initial live set ascending")
        tags = [int(t) for t in lp["tag"]]
        ctx.prove(len(set(tags)) == N and all(t >= 100 for t in tags), "initial live points are distinct proposed points")
        for i, t in enumerate(tags):
            off = ns.proposal.offered.get(t)
            if off is None:
                ctx.fail("initial live point was never proposed")
                continue
            ctx.prove(not (isinstance(off["logP"], float) and math.isinf(off["logP"])), "initial live points have finite prior")
            ctx.prove(off["kind"] == "sym", "initial live points have finite likelihood")
            ctx.prove(int(lp["it"][i]) == 0, "initial live points stamped with iteration 0")
        ctx.cover("end")
    return body


def make_finalise(N):
    def body(ctx):
        dt = _dtype()
        ns = _sampler(ctx, N)
        Ls = [ctx.real(f"L{i}") for i in range(N)]
        for i in range(N - 1):
            ctx.assume(Ls[i] <= Ls[i + 1])
        live = np.empty(N, dtype=dt)
        for i in range(N):
            live[i] = (ctx.real(f"x{i}"), ctx.real(f"P{i}"), Ls[i], 0, i)
        ns.live_points = live
        prev = ctx.real("prevL")
        ctx.assume(prev <= Ls[0])
        ns.state.logLs = [-np.inf, prev]
        ns.state.log_vols = [0.0, -1.0 / N]
        ns.state.logw = -1.0 / N
        ns.state.logZ = ctx.logval("Z0", positive=True)
        ns.state.nlive = [N]
        ns.finalise()
        ctx.prove(ns.live_points is None and ns.finalised is True, "live set emptied, run marked finalised")
        ctx.prove([int(p["tag"]) for p in ns.nested_samples] == list(range(N)), "each remaining live point consumed exactly once, in order")
        ctx.prove(ns.state.nlive == [N] + [N - i for i in range(N)], "remaining points integrated with live counts n, n-1, ..., 1")
        ctx.prove(len(ns.state.logLs) == 2 + N, "one evidence increment per remaining point")
        ctx.prove(_conj([ns.state.logLs[2 + i] == Ls[i] for i in range(N)]), "integrated likelihoods are the points' own")
        ctx.cover("end")
    return body


def make_compose(N, steps, K):
    def body(ctx):
        dt = _dtype()
        ns = _sampler(ctx, N)
        ns.proposal = StubProposal(ctx, dt, N + steps + K, tag0=100, specials=False, nonfinite_prior=False, nonzero=True)
        ns.populate_live_points()
        for s in range(steps):
            ns.consume_sample()
            lp = ns.live_points
            ctx.prove(len(lp) == N and _conj([lp["logL"][i] <= lp["logL"][i + 1] for i in range(N - 1)]), f"iter{s}: live set full and ascending")
        ns.finalise()
        dead = ns.nested_samples
        tags = [int(p["tag"]) for p in dead]
        ctx.prove(len(dead) == steps + N and len(set(tags)) == len(tags), "every discarded point recorded exactly once")
        ctx.prove(_conj([dead[i]["logL"] <= dead[i + 1]["logL"] for i in range(len(dead) - 1)]), "discarded likelihoods non-decreasing")
        ctx.prove(len(ns.insertion_indices) == steps, "one insertion index per replacement")
        ctx.prove(len(ns.state.logLs) == 1 + steps + N, "evidence state has one entry per discarded point")
        ctx.prove(_conj([ns.state.logLs[1 + i] == dead[i]["logL"] for i in range(len(dead))]), "evidence state integrated exactly the discarded likelihoods, in order")
        ctx.cover("end")
    return body


PARALLEL_UNITS = True
MODS = ["nessai.samplers.nestedsampler", "nessai.evidence", "nessai.livepoint"]
EXTRA = {"nessai.samplers.nestedsampler": {"tqdm": _Bar}}


def units(tier):
    us = []
    opts = dict(exp_axioms="minimal")
    if tier == "quick":
        steps = [(1, 2), (2, 2), (3, 2), (4, 1)]
        pops = [(1, 2), (2, 1), (3, 0)]
        fins = [1, 2, 4]
        comps = [(2, 2, 1), (2, 1, 2)]
    else:
        steps = [(1, 3), (2, 3), (3, 3), (4, 2), (5, 2), (6, 2)]
        pops = [(1, 3), (2, 2), (3, 1), (4, 0)]
        fins = [1, 2, 4, 6]
        comps = [(2, 2, 1), (3, 2, 1), (3, 3, 1), (2, 2, 2)]
    for (N, K) in steps:
        us.append(Unit(f"step[N={N},K={K}]", make_step(N, K), MODS, opts, expect_cover=["end", "replaced"],
                       mutants=["nonstrict", "index"] if (N, K) == steps[1] else [], twin_runs=40, setup=setup,
                       extra_patches=EXTRA, witness_every=20 if tier == "quick" else 200))
    for N in ((2,) if tier == "quick" else (1, 2, 3)):
        us.append(Unit(f"step_flow_pool[N={N},2 params,either parameter order]", make_step_flow_pool(N), MODS + ["nessai.proposal.flowproposal"], opts,
                       expect_cover=["end"], twin_runs=20, setup=setup, extra_patches=EXTRA, witness_every=2))
    for (N, K) in pops:
        us.append(Unit(f"populate[N={N},K={K}]", make_populate(N, K), MODS, opts, expect_cover=["end"], twin_runs=30, setup=setup,
                       extra_patches=EXTRA, witness_every=20 if tier == "quick" else 200))
    for N in fins:
        us.append(Unit(f"finalise[N={N}]", make_finalise(N), MODS, opts, expect_cover=["end"], twin_runs=20, setup=setup,
                       extra_patches=EXTRA, witness_every=1))
    for (N, s, K) in comps:
        us.append(Unit(f"compose[N={N},steps={s},K={K}]", make_compose(N, s, K), MODS, opts, expect_cover=["end"], twin_runs=30,
                       setup=setup, extra_patches=EXTRA, witness_every=20 if tier == "quick" else 200, heavy=True))
    return us
