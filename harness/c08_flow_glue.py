"""C08 - flow and proposal densities are consistent with their samples (composition layers only).

The transform and the latent distributions are uninterpreted (T, T^-1 with
T(T^-1 z) = z, log|det|, base(z), alt(z)); the real composition code of
`NFlow`, `FlowModel` (through a pass-through torch shim) and
`FlowProposal.forward_pass / backward_pass` is executed on symbolic points.
"""
import contextlib
import math

import numpy as np

from sx.runner import Unit

ID = "C08"
FUNCTIONS = [
    "nessai.flows.base.NFlow.log_prob",
    "nessai.flows.base.NFlow.forward_and_log_prob",
    "nessai.flows.base.NFlow.sample_and_log_prob",
    "nessai.flows.base.NFlow.base_distribution_log_prob",
    "nessai.flows.base.NFlow.inverse",
    "nessai.flows.base.NFlow.forward",
    "nessai.flowmodel.base.FlowModel.forward_and_log_prob",
    "nessai.flowmodel.base.FlowModel.log_prob",
    "nessai.flowmodel.base.FlowModel.sample_and_log_prob",
    "nessai.proposal.flowproposal.FlowProposal.forward_pass",
    "nessai.proposal.flowproposal.FlowProposal.backward_pass",
    "nessai.proposal.flowproposal.FlowProposal.rescale",
    "nessai.proposal.flowproposal.FlowProposal.inverse_rescale",
    "nessai.proposal.importance.ImportanceFlowProposal.draw",
    "nessai.proposal.importance.ImportanceFlowProposal.compute_log_Q",
    "nessai.proposal.importance.ImportanceFlowProposal.compute_meta_proposal_samples",
    "nessai.proposal.importance.ImportanceFlowProposal.rescale",
    "nessai.proposal.importance.ImportanceFlowProposal.inverse_rescale",
]
BOUNDS = {"quick": dict(dimensions=1, batch=2, ins_proposal="1..2 flows without reparameterisation, 1 flow with logit, one drawn sample"),
          "thorough": dict(dimensions=1, batch=3, ins_proposal="1..3 flows without reparameterisation, 1..2 flows with logit, one drawn sample")}
SCOPE = ("Only the glue is decided: that the density reported at generation is the density evaluated at the generated point, that the array-level interface returns the model-level values, "
         "that the alternative latent distribution is used when supplied, and that the proposal adds / subtracts the rescaling Jacobian with the right sign.")
ASSUMPTIONS = [
    "the transform is a bijection with inverse T^-1 and log|det dT/dx| = ld(x); its inverse reports -ld(T^-1 z) (uninterpreted functions with the ground axiom T(T^-1 z) = z)",
    "torch tensors are a pass-through container (from_numpy / type / to / detach / cpu / numpy / astype)",
    "the reparameterisation is an uninterpreted map with log-Jacobian J(x) forwards and -J backwards (its own correctness is C07)",
]
OUTSIDE = ["the eps-clip shell of the logit map for the importance sampler's proposal (C03, known finding F-C03-eps-clip)", "forward o inverse = identity and normalisation of the actual RealNVP / MAF / spline transforms (glasflow, torch, float32)", "trained or reset weights", "the 2-D density integral"]

PARALLEL_UNITS = True
MODS = ["nessai.flows.base", "nessai.flowmodel.base", "nessai.proposal.flowproposal", "nessai.livepoint"]


class _PassArray(np.ndarray):
    """ndarray whose astype() is the identity (the torch -> numpy -> float64 hop of FlowModel)."""

    def astype(self, *a, **k):
        return np.asarray(self)


class FakeTensor:
    def __init__(self, a):
        self.a = a

    def type(self, *a, **k):
        return self

    def to(self, *a, **k):
        return self

    def detach(self):
        return self

    def cpu(self):
        return self

    def numpy(self):
        return np.asarray(self.a).view(_PassArray)

    def __isub__(self, o):
        self.a = self.a - (o.a if isinstance(o, FakeTensor) else o)
        return self

    def __sub__(self, o):
        return FakeTensor(self.a - (o.a if isinstance(o, FakeTensor) else o))

    def __add__(self, o):
        return FakeTensor(self.a + (o.a if isinstance(o, FakeTensor) else o))

    __radd__ = __add__


class FakeTorch:
    @staticmethod
    def from_numpy(a):
        return FakeTensor(a)

    @staticmethod
    def get_default_dtype():
        return "float32"

    @staticmethod
    @contextlib.contextmanager
    def inference_mode():
        yield

    no_grad = inference_mode

    class Tensor:
        pass


class Transform:
    def __init__(self, ctx):
        self.ctx = ctx

    def _map(self, name, t):
        f = object if self.ctx.mode == "sym" else float
        out = np.empty(t.a.shape, dtype=f)
        for idx in np.ndindex(*t.a.shape):
            out[idx] = self.ctx.uf(name, t.a[idx])
        return out

    def forward(self, x, context=None):
        z = self._map("T", x)
        ld = np.array([self.ctx.uf("ld", x.a[i, 0]) for i in range(len(x.a))], dtype=z.dtype)
        return FakeTensor(z), FakeTensor(ld)

    __call__ = forward

    def inverse(self, z, context=None):
        x = self._map("Tinv", z)
        ctx = self.ctx
        for i in range(len(z.a)):
            if ctx.mode == "sym":
                ctx.axiom(ctx.uf("T", x[i, 0]) == z.a[i, 0])      # T(T^-1 z) = z
        ld = np.array([-ctx.uf("ld", x[i, 0]) for i in range(len(x))], dtype=x.dtype)
        return FakeTensor(x), FakeTensor(ld)


class Dist:
    def __init__(self, ctx, name):
        self.ctx, self.name = ctx, name

    def log_prob(self, z):
        return FakeTensor(np.array([self.ctx.uf(self.name, z.a[i, 0]) for i in range(len(z.a))], dtype=z.a.dtype))

    def sample_and_log_prob(self, N):
        f = object if self.ctx.mode == "sym" else float
        z = np.empty((N, 1), dtype=f)
        for i in range(N):
            z[i, 0] = self.ctx.real(self.ctx.fresh("latent"), -4, 4)
        t = FakeTensor(z)
        return t, self.log_prob(t)


def _nflow(ctx):
    from nessai.flows.base import NFlow
    fl = NFlow.__new__(NFlow)
    object.__setattr__(fl, "_transform", Transform(ctx))
    object.__setattr__(fl, "_distribution", Dist(ctx, "base"))
    object.__setattr__(fl, "training", False)
    object.__setattr__(fl, "device", "cpu")
    object.__setattr__(fl, "eval", lambda: None)
    return fl


def _conc_T(ctx):
    """In concrete mode T / Tinv must really be inverse to each other: use an explicit bijection."""
    return None


def make_nflow(n):
    def body(ctx):
        mut = getattr(ctx, "mutant", None)
        fl = _nflow(ctx)
        if ctx.mode == "conc":
            _make_concrete_bijection(ctx)
        x, lp = fl.sample_and_log_prob(n)
        lp2 = fl.log_prob(x)
        for i in range(n):
            ctx.prove_eq(lp.a[i], lp2.a[i] if mut != "sign" else lp2.a[i] + 1, "density reported when a sample is generated = density evaluated at that sample")
        z, lp3 = fl.forward_and_log_prob(x)
        for i in range(n):
            ctx.prove_eq(lp3.a[i], lp2.a[i], "forward_and_log_prob density = log_prob")
            ctx.prove_eq(z.a[i, 0], ctx.uf("T", x.a[i, 0]), "forward_and_log_prob returns the transformed point")
        ctx.cover("end")
    return body


_CONC = {}


def _make_concrete_bijection(ctx):
    """Concrete twin: replace the uninterpreted T / Tinv by a real bijection (cubic + linear) and its log-Jacobian."""
    def uf(name, *args):
        a = float(args[0])
        if name == "T":
            return a + 0.1 * a ** 3
        if name == "Tinv":
            # invert y = x + 0.1 x^3 by Newton iteration
            x = a
            for _ in range(60):
                x = x - (x + 0.1 * x ** 3 - a) / (1 + 0.3 * x ** 2)
            return x
        if name == "ld":
            return math.log(1 + 0.3 * a ** 2)
        if name == "base":
            return -0.5 * a * a - 0.9189385332046727
        if name == "alt":
            return -0.25 * a * a - 1.3
        if name == "J":
            return 0.3 * math.sin(a) + 0.1
        if name == "R":
            return 2.0 * a + 1.0
        if name == "Rinv":
            return (a - 1.0) / 2.0
        raise KeyError(name)
    ctx.uf = uf


def _flowmodel(ctx):
    from nessai.flowmodel.base import FlowModel
    fm = FlowModel.__new__(FlowModel)
    fm.model = _nflow(ctx)
    return fm


def make_flowmodel(n, use_alt):
    def body(ctx):
        import nessai.flowmodel.base as fmb
        if ctx.mode == "conc":
            _make_concrete_bijection(ctx)
        fm = _flowmodel(ctx)
        old = fmb.torch
        fmb.torch = FakeTorch
        try:
            f = object if ctx.mode == "sym" else float
            z = np.empty((n, 1), dtype=f)
            for i in range(n):
                z[i, 0] = ctx.real(f"z{i}", -4, 4)
            alt = Dist(ctx, "alt") if use_alt else None
            x, lp = fm.sample_and_log_prob(z=z.copy(), alt_dist=alt)
            name = "alt" if use_alt else "base"
            for i in range(n):
                xi = ctx.uf("Tinv", z[i, 0])
                ctx.prove_eq(x[i, 0], xi, "array-level sample = model-level inverse of the supplied latent point")
                ctx.prove_eq(lp[i], ctx.uf(name, z[i, 0]) + ctx.uf("ld", xi),
                             "density of a generated point = latent density (the alternative one when supplied) - log|det of the inverse|")
            # evaluate at the generated points
            lp_eval = fm.log_prob(x.copy())
            zf, lp_f = fm.forward_and_log_prob(x.copy())
            for i in range(n):
                ctx.prove_eq(lp_eval[i], lp_f[i], "array-level log_prob = array-level forward_and_log_prob density")
                ctx.prove_eq(zf[i, 0], z[i, 0], "forward of a generated point returns the latent point it came from")
                if not use_alt:
                    ctx.prove_eq(lp_eval[i], lp[i], "density evaluated at a generated point = density reported at generation")
            ctx.cover("end")
        finally:
            fmb.torch = old
    return body


class Reparam:
    """Uninterpreted reparameterisation x' = R(x), log-Jacobian J(x); inverse x = Rinv(x'), -J(x)."""

    def __init__(self, ctx):
        self.ctx = ctx

    def reparameterise(self, x, x_prime, log_J, **kw):
        ctx = self.ctx
        for i in range(len(x)):
            x_prime["xp"][i] = ctx.uf("R", x["x"][i])
            log_J[i] = log_J[i] + ctx.uf("J", x["x"][i])
        return x, x_prime, log_J

    def inverse_reparameterise(self, x, x_prime, log_J, **kw):
        ctx = self.ctx
        for i in range(len(x_prime)):
            v = ctx.uf("Rinv", x_prime["xp"][i])
            if ctx.mode == "sym":
                ctx.axiom(ctx.uf("R", v) == x_prime["xp"][i])
            x["x"][i] = v
            log_J[i] = log_J[i] - ctx.uf("J", v)
        return x, x_prime, log_J


@contextlib.contextmanager
def setup(symbolic):
    from nessai import config
    lp = config.livepoints
    old = (lp.default_float_dtype, lp.logl_dtype)
    if symbolic:
        lp.default_float_dtype = "O"
        lp.logl_dtype = "O"
        lp.reset_properties()
    try:
        yield
    finally:
        lp.default_float_dtype, lp.logl_dtype = old
        lp.reset_properties()


def make_proposal(n, use_alt):
    def body(ctx):
        import nessai.flowmodel.base as fmb
        from nessai.proposal.flowproposal import FlowProposal
        from nessai.livepoint import get_dtype
        mut = getattr(ctx, "mutant", None)
        if ctx.mode == "conc":
            _make_concrete_bijection(ctx)
        old = fmb.torch
        fmb.torch = FakeTorch
        try:
            fp = FlowProposal.__new__(FlowProposal)
            fp.flow = _flowmodel(ctx)
            fp._reparameterisation = Reparam(ctx)
            fp.parameters, fp.prime_parameters = ["x"], ["xp"]
            fp._x_dtype, fp._x_prime_dtype = get_dtype(["x"]), get_dtype(["xp"])
            fp.alt_dist = Dist(ctx, "alt") if use_alt else None

            class M:
                names = ["x"]

                def in_bounds(self, x):
                    return np.ones(len(x), dtype=bool)
            fp.model = M()
            f = object if ctx.mode == "sym" else float
            z = np.empty((n, 1), dtype=f)
            for i in range(n):
                z[i, 0] = ctx.real(f"z{i}", -4, 4)
            x, lq = fp.backward_pass(z.copy(), rescale=True)
            ctx.prove(len(x) == n, "one physical point per latent point")
            name = "alt" if use_alt else "base"
            for i in range(n):
                xp = ctx.uf("Tinv", z[i, 0])
                xv = ctx.uf("Rinv", xp)
                ctx.prove_eq(x["x"][i], xv, "generated physical point = inverse rescaling of the inverse flow of the latent point")
                want = ctx.uf(name, z[i, 0]) + ctx.uf("ld", xp) + ctx.uf("J", xv)
                if mut == "jac":
                    want = want - 2 * ctx.uf("J", xv)
                ctx.prove_eq(lq[i], want, "density attached to a generated physical point = latent density - log|det inverse flow| + rescaling log-Jacobian")
            if not use_alt:
                z2, lq2 = fp.forward_pass(x.copy(), rescale=True, compute_radius=False)
                for i in range(n):
                    ctx.prove_eq(lq2[i], lq[i], "density computed when the same point is passed forwards = density attached at generation")
                    ctx.prove_eq(z2[i, 0], z[i, 0], "forward pass of a generated point returns its latent point")
            ctx.cover("end")
        finally:
            fmb.torch = old
    return body


def units(tier):
    us = []
    n = 2 if tier == "quick" else 3
    opts = dict()
    us.append(Unit(f"nflow[n={n}]", make_nflow(n), MODS, opts, expect_cover=["end"], mutants=["sign"], twin_runs=5, witness_every=1, nproc=1))
    for alt in (False, True):
        us.append(Unit(f"flowmodel[n={n},alt={alt}]", make_flowmodel(n, alt), MODS, opts, expect_cover=["end"], twin_runs=5, witness_every=1, nproc=1))
        us.append(Unit(f"proposal[n={n},alt={alt}]", make_proposal(n, alt), MODS, opts, expect_cover=["end"], mutants=["jac"] if not alt else [], twin_runs=5, witness_every=1,
                       setup=setup, nproc=1))
    # the importance sampler's proposal (same clause of the statement): reuses the C03 model of ImportanceFlowProposal, density obligations only
    from . import c03_ins_density as c03
    nl0 = dict(exp_axioms="signs", fresh=True, timeout_ms=60000)
    for (nf, reparam) in [(1, None), (2, None), (1, "logit")] + ([] if tier == "quick" else [(3, None), (2, "logit")]):
        nl = nl0 if reparam is None else dict(nl0, exp_axioms="full")
        us.append(Unit(f"ins_proposal[flows={nf},{reparam}]", c03.make_draw(1, nf, reparam, 1, density_only=True), c03.MODS, nl, expect_cover=["end"], twin_runs=5, witness_every=3,
                       setup=c03.setup, nproc=1, time_budget_s=600))
    return us
