"""C05 - returned results are mutually consistent and faithful to the model.

Standard sampler: the real populate -> consume* -> finalise composition (as in
C01) followed by the real result accessors; the evidence and weights are
recomputed from the returned samples with the real `compute_weights` and must
agree identically (log-semiring).  The user model is a pair of uninterpreted
functions, so a swapped or stale logL / logP field is visible.
Importance sampler: real `_INSIntegralState`, `OrderedSamples.finalise`, the
`final_*` properties and `get_result_dictionary`.
"""
import datetime
import math

import numpy as np

from sx import symnp as _symnp
from sx.logic import AND
from sx.runner import Unit
from harness import c01_liveset as c01

ID = "C05"
FUNCTIONS = [
    "nessai.samplers.nestedsampler.NestedSampler.populate_live_points",
    "nessai.samplers.nestedsampler.NestedSampler.consume_sample",
    "nessai.samplers.nestedsampler.NestedSampler.finalise",
    "nessai.samplers.nestedsampler.NestedSampler.get_result_dictionary",
    "nessai.samplers.nestedsampler.NestedSampler.birth_log_likelihoods",
    "nessai.samplers.base.BaseNestedSampler.get_result_dictionary",
    "nessai.evidence._NSIntegralState.increment",
    "nessai.evidence._NSIntegralState.finalise",
    "nessai.evidence._NSIntegralState.log_posterior_weights",
    "nessai.posterior.compute_weights",
    "nessai.evidence._INSIntegralState.update_evidence",
    "nessai.evidence._INSIntegralState.logZ",
    "nessai.evidence._INSIntegralState.log_posterior_weights",
    "nessai.evidence._INSIntegralState.compute_uncertainty",
    "nessai.evidence.log_evidence_from_ins_samples",
    "nessai.samplers.importancesampler.OrderedSamples.finalise",
    "nessai.samplers.importancesampler.ImportanceNestedSampler.get_result_dictionary",
    "nessai.samplers.importancesampler.ImportanceNestedSampler.final_state",
    "nessai.samplers.importancesampler.ImportanceNestedSampler.final_samples_unit",
]
BOUNDS = {
    "quick": dict(standard="nlive 2, 1 iteration, 1 spare candidate", ins="store of 3 samples, with and without the independent sample set"),
    "thorough": dict(standard="nlive 2, 1..2 iterations, 1 spare candidate", ins="store of 3..4 samples, with and without the independent sample set"),
}
SCOPE = "Exact real arithmetic (log-semiring) for the evidence identities; uninterpreted model functions LL(x), LP(x)."
ASSUMPTIONS = [
    "the proposal fills logP with the model prior and logL with the model likelihood of the point it offers (C09 decides that for the built-in proposals)",
    "update_state / checkpointing / plotting are stubs",
    "from_unit_hypercube of the user model is the identity in the importance-sampler unit",
]
OUTSIDE = ["real runs for every configuration", "the information H and the standard sampler's error estimate (opaque: only 'same value' is checked)", "resumed runs (C12)"]

PARALLEL_UNITS = True
MODS = c01.MODS + ["nessai.posterior", "nessai.samplers.base"]


class ModelStub(c01.StubModel):
    likelihood_evaluations = 17
    likelihood_evaluation_time = datetime.timedelta(seconds=1)


class Proposal(c01.StubProposal):
    """Candidates carry logL = LL(x), logP = LP(x) of an uninterpreted model."""

    def draw(self, old):
        ctx = self.ctx
        from sx.engine import OutOfBound
        if len(self.offered) >= self.K:
            raise OutOfBound("more candidates needed than the bound")
        t = self.next_tag
        self.next_tag += 1
        x = ctx.real(f"cx{t}")
        L = ctx.uf("LL", x)
        P = ctx.uf("LP", x)
        if ctx.mode == "sym":
            ctx.assume(L != 0)
        rec = np.empty(1, dtype=self.dtype)
        rec["x"], rec["logP"], rec["logL"], rec["it"], rec["tag"] = x, P, L, 0, t
        self.offered[t] = dict(logL=L, logP=P, kind="sym", x=x, contour=getattr(self, "sampler", None) and self.sampler.logLmin)
        self._populated = None
        return rec[0]


def _snp(ctx):
    return _symnp.symnp if ctx.mode == "sym" else np


def make_standard(N, steps):
    def body(ctx):
        from nessai.posterior import compute_weights
        from nessai.evidence import _NSIntegralState
        from sx.values import Sym
        import z3
        mut = getattr(ctx, "mutant", None)
        dt = c01._dtype()
        ns = c01._sampler(ctx, N)
        n_exact = Sym(z3.IntVal(N), is_int=True) if ctx.mode == "sym" else N
        ns.nlive = n_exact
        ns.state = _NSIntegralState(n_exact, track_gradients=False)
        ns.model = ModelStub(ctx)
        ns.proposal = Proposal(ctx, dt, N + steps + 1, tag0=100, specials=False, nonfinite_prior=False)
        ns.proposal.sampler = ns
        ns._uninformed_proposal = ns._flow_proposal = type("P", (), {"population_time": datetime.timedelta()})()
        ns.training_time = datetime.timedelta(seconds=2)
        ns.sampling_time = datetime.timedelta(seconds=5)
        ns.history = dict(a=1)
        ns.seed = 7
        ns.final_p_value, ns.final_ks_statistic = 0.5, 0.1
        ns.debug_enabled = False
        ns.populate_live_points()
        for s in range(steps):
            ns.consume_sample()
        ns.finalise()
        d = ns.get_result_dictionary()
        samples = d["nested_samples"]
        n = len(samples)
        ctx.prove(n == steps + N + (1 if mut == "count" else 0) and ns.iteration == steps, "number of returned samples = iterations + live points")
        ctx.prove(AND(*[samples["logL"][i] <= samples["logL"][i + 1] for i in range(n - 1)]), "returned likelihoods ascending")
        for i in range(n):
            ctx.prove_eq(samples["logL"][i], ctx.uf("LL", samples["x"][i]), "stored log-likelihood is the model's value at the sample's parameters")
            ctx.prove_eq(samples["logP"][i], ctx.uf("LP", samples["x"][i]), "stored log-prior is the model's value at the sample's parameters")
        birth = d["logL_birth"]
        ctx.prove(len(birth) == n, "one birth likelihood per sample")
        for i in range(n):
            contour = ns.proposal.offered[int(samples["tag"][i])]["contour"]
            ctx.prove_eq(birth[i], contour, "birth likelihood = the likelihood contour inside which the sample was drawn (-inf for the initial points)")
            if isinstance(birth[i], float) and birth[i] == -np.inf:
                continue
            ctx.prove(birth[i] < samples["logL"][i], "birth likelihood strictly below the sample's likelihood")
        # recompute evidence and weights from the returned samples alone
        logL = samples["logL"].copy()
        logZ2, lw2 = compute_weights(logL, N)
        ctx.prove_eq(d["log_evidence"], logZ2, "reported evidence = estimator recomputed from the returned samples")
        lw = d["log_posterior_weights"]
        ctx.prove(len(lw) == n, "one posterior weight per sample")
        for i in range(n):
            ctx.prove_eq(lw[i], lw2[i], "reported posterior weight = recomputed weight")
        ctx.prove_eq(d["log_evidence"], ns.log_evidence, "dictionary evidence = sampler evidence")
        ctx.prove_eq(d["log_evidence_error"], ns.log_evidence_error, "dictionary uncertainty = sampler uncertainty")
        ctx.prove_eq(d["information"], ns.information, "dictionary information = sampler information")
        ctx.prove(d["insertion_indices"] == ns.insertion_indices and len(ns.insertion_indices) == steps, "dictionary insertion indices = sampler's, one per iteration")
        ctx.prove(d["total_likelihood_evaluations"] == ns.model.likelihood_evaluations, "dictionary evaluation count = model's")
        ctx.cover("end")
    return body


def _ins_store(ctx, prefix, m, nlive, OrderedSamples):
    f = "O" if ctx.mode == "sym" else "f8"
    dt = np.dtype([("x", f), ("logL", f), ("logW", f), ("it", "i4")])
    s = np.empty(m, dtype=dt)
    Ls = [ctx.real(f"{prefix}L{i}", -3, 3) for i in range(m)]
    for i in range(m - 1):
        ctx.assume(Ls[i] <= Ls[i + 1])
    if m >= 2 and ctx.choice(f"{prefix}zero_likelihood_sample", 2):
        # a returned sample may have zero likelihood (hard cut inside the prior): it sorts first and still counts in the mean
        Ls[0] = -math.inf
    lw = [ctx.logval(f"{prefix}W{i}", positive=True) for i in range(m)]
    for i in range(m):
        s[i] = (ctx.real(f"{prefix}x{i}"), Ls[i], lw[i], i % 2)
    os_ = OrderedSamples()
    os_.samples = s
    os_.log_q = np.zeros((m, 2))
    os_.nested_samples_indices = np.arange(m - nlive)
    os_.live_points_indices = np.arange(m - nlive, m)
    return os_, Ls, lw


def make_ins(m, iid):
    def body(ctx):
        from nessai.samplers.importancesampler import ImportanceNestedSampler, OrderedSamples
        from nessai.evidence import log_evidence_from_ins_samples
        mut = getattr(ctx, "mutant", None)
        snp = _snp(ctx)
        ins = ImportanceNestedSampler.__new__(ImportanceNestedSampler)
        ins.model = ModelStub(ctx)
        ins.model.from_unit_hypercube = lambda x: x
        ts, tL, tW = _ins_store(ctx, "t", m, 1, OrderedSamples)
        ins.training_samples = ts
        ins.draw_iid_live = iid
        ins.iid_samples = None
        stores = [(ts, tL, tW)]
        if iid:
            it, iL, iW = _ins_store(ctx, "i", m, 2 if m > 2 else 1, OrderedSamples)
            ins.iid_samples = it
            stores.append((it, iL, iW))
        ins._final_samples = None
        ins.history = dict(a=1)
        ins.seed = 3
        ins.sampling_time = ins.training_time = ins.draw_samples_time = datetime.timedelta(seconds=1)
        ins.add_and_update_samples_time = ins.draw_final_samples_time = datetime.timedelta(seconds=1)
        ins.importance = dict(total=[1.0])
        ins.bootstrap_log_evidence = ins.bootstrap_log_evidence_error = None
        # what ImportanceNestedSampler.finalise does to the stores
        ts.finalise()
        if iid:
            ins.iid_samples.finalise()
        for (st, Ls, lw) in stores:
            n = len(st.samples)
            ctx.prove(st.live_points_indices is None and [int(i) for i in st.nested_samples_indices] == list(range(n)), "finalise consumes every live sample exactly once")
            w = [snp.exp(Ls[i] + lw[i]) for i in range(n)]
            tot = w[0]
            for x in w[1:]:
                tot = tot + x
            zhat = tot / (n if mut != "mean" else n + 1)
            ctx.prove_eq(st.state.logZ, snp.log(zhat), "evidence = log of the mean importance weight of all samples")
            ctx.prove_eq(st.state.logZ, log_evidence_from_ins_samples(st.samples), "evidence = estimator recomputed from the samples alone")
            lpw = st.state.log_posterior_weights
            ctx.prove(len(lpw) == n, "one posterior weight per sample")
            for i in range(n):
                ctx.prove_eq(lpw[i], Ls[i] + lw[i] - snp.log(zhat), "posterior weight i = logL + logW - logZ")
            s = st.samples
            ctx.prove(AND(*[s["logL"][i] <= s["logL"][i + 1] for i in range(n - 1)]), "samples in ascending likelihood order")
        main = ins.iid_samples if iid else ts
        d = ins.get_result_dictionary()
        ctx.prove_eq(ins.log_evidence, main.state.logZ, "sampler evidence is that of its main sample set")
        if d["log_evidence"] is None:
            ctx.fail("result dictionary reports no evidence (None) although the sampler has one", f"draw_iid_live={iid}")
        else:
            ctx.prove_eq(d["log_evidence"], ins.log_evidence, "dictionary evidence = sampler evidence")
            ctx.prove_eq(d["log_evidence_error"], ins.log_evidence_error, "dictionary uncertainty = sampler uncertainty")
            ctx.prove(d["samples"] is not None and len(d["samples"]) == len(main.samples), "dictionary samples = the sampler's samples")
            lw_d = d["log_posterior_weights"]
            for i in range(len(main.samples)):
                ctx.prove_eq(lw_d[i], ins.log_posterior_weights[i], "dictionary posterior weights = sampler's")
        ctx.prove_eq(d["training_log_evidence"], ts.state.logZ, "dictionary training evidence = training set's")
        ctx.cover("end")
    return body


def units(tier):
    us = []
    q = tier == "quick"
    nl = dict(exp_axioms="signs", fresh=True, timeout_ms=60000)
    # nlive = 3 and three steps do not finish reliably within the unit budget (solver 'unknown' on single branches): outside the claim
    for (N, steps) in ([(2, 1)] if q else [(2, 1), (2, 2)]):
        us.append(Unit(f"standard[N={N},steps={steps}]", make_standard(N, steps), MODS, nl, expect_cover=["end"], mutants=["count"] if (N, steps) == (2, 1) else [],
                       twin_runs=20, witness_every=10, setup=c01.setup, extra_patches=c01.EXTRA, nproc=None, time_budget_s=900, heavy=True))
    for m in ([3] if q else [3, 4]):
        for iid in (True, False):
            us.append(Unit(f"ins[m={m},iid={iid}]", make_ins(m, iid), MODS, nl, expect_cover=["end"], mutants=["mean"] if iid else [], twin_runs=10, witness_every=2, nproc=1))
    return us
