"""C09 - proposal pools never leave the prior (structural part).

The real `FlowProposal.populate / backward_pass / check_prior_bounds /
compute_weights / convert_to_samples / draw`, `RejectionProposal.populate`,
`AnalyticProposal.populate / draw` and `Model.in_bounds` are executed with an
uninterpreted flow (arbitrary points and densities), a symbolic random
generator and an uninterpreted model prior / likelihood; every likelihood call
records its arguments.
"""
import contextlib
import datetime
import math

import numpy as np

from sx import symnp as _symnp
from sx.engine import OutOfBound
from sx.logic import AND, NOT
from sx.runner import Unit

ID = "C09"
FUNCTIONS = [
    "nessai.proposal.flowproposal.FlowProposal.populate",
    "nessai.proposal.flowproposal.FlowProposal.backward_pass",
    "nessai.proposal.flowproposal.FlowProposal.check_prior_bounds",
    "nessai.proposal.flowproposal.FlowProposal.compute_weights",
    "nessai.proposal.flowproposal.FlowProposal.log_prior",
    "nessai.proposal.flowproposal.FlowProposal.convert_to_samples",
    "nessai.proposal.flowproposal.FlowProposal.inverse_rescale",
    "nessai.proposal.flowproposal.FlowProposal.draw",
    "nessai.proposal.augmented.AugmentedFlowProposal.backward_pass",
    "nessai.proposal.augmented.AugmentedFlowProposal.log_prior",
    "nessai.proposal.augmented.AugmentedFlowProposal.augmented_prior",
    "nessai.proposal.rejection.RejectionProposal.populate",
    "nessai.proposal.rejection.RejectionProposal.compute_weights",
    "nessai.proposal.analytic.AnalyticProposal.populate",
    "nessai.proposal.analytic.AnalyticProposal.draw",
    "nessai.model.Model.in_bounds",
    "nessai.proposal.flowproposal.FlowProposal.configure_latent_prior",
    "nessai.proposal.flowproposal.FlowProposal.prep_latent_prior",
    "nessai.proposal.flowproposal.FlowProposal.draw_latent_prior",
    "nessai.utils.sampling.draw_nsphere",
    "nessai.utils.sampling.draw_surface_nsphere",
    "nessai.utils.sampling.draw_truncated_gaussian",
    "nessai.utils.sampling.NDimensionalTruncatedGaussian.sample",
]
BOUNDS = {
    "quick": dict(pool_size_N="1..2", drawsize=2, population_loop_iterations="<=2", dimensions=1, modes=["accumulate_weights off; on for N=1", "truncate_log_q off"],
                  latent="radial samplers in d = 2, 3, one point, symbolic radius and fuzz; two successive populations with different radii; augmented proposal N=1; in_bounds with 2 parameters"),
    "thorough": dict(pool_size_N="1..3", drawsize=2, population_loop_iterations="<=3 for N=1, <=2 for N=2..3", dimensions=1, modes=["accumulate_weights off; on for N=1", "truncate_log_q off"],
                     latent="radial samplers in d = 1, 2, 3; otherwise as in the quick tier"),
}
SCOPE = "Structural clauses only: bounds, prior / likelihood bookkeeping, pool size, single hand-out, likelihood never called outside the prior support."
ASSUMPTIONS = [
    "the flow returns arbitrary points with arbitrary finite, NaN or -inf densities (uninterpreted); the reparameterisation is the identity with zero log-Jacobian (its own correctness is C07)",
    "the model prior is finite or -inf and a function of the point; np.random.rand returns values in [0,1)",
    "in the population units the latent draw is an arbitrary array; the radial truncation is decided separately by the latent_radius / latent_prep units",
    "augmented proposal: scipy's norm.logpdf of the augment parameter is -x^2/2 - log(sqrt(2 pi))",
]
OUTSIDE = ["latent dimensions above 3 for the radial samplers (d = 1..3 are decided; x ** (1/d) is only modelled for d <= 3)", "that the pool is distributed as the prior restricted to the contour (distributional)", "termination of the population loop (paths needing more iterations than the bound are counted as out-of-bound)",
           "marginalise_augment=True of the augmented proposal (Monte-Carlo marginalisation through the flow); the gravitational-wave and clustering proposals only change configuration / training and inherit the population code checked here", "the distribution of the radial latent samplers (only the radius bound is decided, relative to: chi ppf/cdf inverse and monotone, gammaincinv(d/2, chi.cdf(y)) = y^2/2)"]

PARALLEL_UNITS = True
MODS = ["nessai.proposal.flowproposal", "nessai.proposal.rejection", "nessai.proposal.analytic", "nessai.proposal.base", "nessai.model", "nessai.livepoint", "nessai.utils.structures"]


@contextlib.contextmanager
def setup(symbolic):
    from nessai import config
    from nessai.livepoint import reset_extra_live_points_parameters
    lp = config.livepoints
    old = (lp.default_float_dtype, lp.logl_dtype)
    reset_extra_live_points_parameters()
    if symbolic:
        lp.default_float_dtype = "O"
        lp.logl_dtype = "O"
        lp.reset_properties()
    try:
        yield
    finally:
        lp.default_float_dtype, lp.logl_dtype = old
        lp.reset_properties()


def _model(ctx, lo, hi):
    from nessai.model import Model

    class M(Model):
        names = ["x"]
        bounds = {"x": [lo, hi]}

        def __init__(self):
            self.ll_args = []
            self.lp_kind = {}

        def log_prior(self, x):
            raise NotImplementedError

        def log_likelihood(self, x):
            raise NotImplementedError

        def batch_evaluate_log_prior(self, x, unit_hypercube=False):
            out = np.empty(len(x), dtype=object if ctx.mode == "sym" else float)
            for i in range(len(x)):
                # the prior is a function of the point: finite inside its support, possibly -inf anywhere
                # (e.g. a non-rectangular support); the choice is made once per point
                v = x["x"][i]
                key = v.p.get_id() if hasattr(v, "p") else float(v)
                if key not in self.lp_kind:
                    self.lp_kind[key] = (ctx.choice("prior_finite", 2) == 0, v)
                out[i] = ctx.uf("LP", v) if self.lp_kind[key][0] else -math.inf
            return out

        def batch_evaluate_log_likelihood(self, x, unit_hypercube=False):
            out = np.empty(len(x), dtype=object if ctx.mode == "sym" else float)
            for i in range(len(x)):
                self.ll_args.append((x["x"][i], x["logP"][i]))
                out[i] = ctx.uf("LL", x["x"][i])
            return out

        def new_point(self, N=1):
            from nessai.livepoint import empty_structured_array
            a = empty_structured_array(N, names=self.names)
            for i in range(N):
                v = ctx.real(ctx.fresh("prior_draw"), -5, 5)
                ctx.assume((v >= lo) & (v <= hi))
                a["x"][i] = v
            return a
    return M()


class FlowStub:
    device = "cpu"

    def __init__(self, ctx, max_calls):
        self.ctx, self.max_calls, self.calls = ctx, max_calls, 0

    def sample_and_log_prob(self, z=None, alt_dist=None, N=None):
        ctx = self.ctx
        if self.calls >= self.max_calls:
            raise OutOfBound("population needs more batches than the bound")
        self.calls += 1
        n = len(z)
        f = object if ctx.mode == "sym" else float
        x = np.empty((n, 1), dtype=f)
        lq = np.empty(n, dtype=f)
        for i in range(n):
            x[i, 0] = ctx.real(ctx.fresh("flow_x"), -6, 6)
            kind = ctx.choice("logq_kind", 2)
            lq[i] = ctx.real(ctx.fresh("flow_logq"), -6, 6) if kind == 0 else math.nan
        return x, lq


class IdentityReparam:
    def inverse_reparameterise(self, x, x_prime, log_J, **kw):
        for n in x_prime.dtype.names:
            if n in x.dtype.names and n not in ("logP", "logL", "it", "logW", "logQ"):
                x[n] = x_prime[n]
        return x, x_prime, log_J

    def log_prior(self, x):
        return 0.0


def _flow_proposal(ctx, model, N, drawsize, accumulate, max_calls, cls=None):
    from nessai.proposal.flowproposal import FlowProposal
    from nessai.livepoint import get_dtype
    cls = cls or FlowProposal
    fp = cls.__new__(cls)
    fp.model = model
    fp.initialised = True
    fp.fixed_radius = 2.0
    fp.truncate_log_q = False
    fp.compute_radius_with_all = False
    fp.max_radius = fp.min_radius = False
    fp.indices = []
    fp.accumulate_weights = accumulate
    fp.drawsize = drawsize
    fp.use_x_prime_prior = False
    fp.latent_prior = "truncated_gaussian"
    fp.flow = FlowStub(ctx, max_calls)
    fp._reparameterisation = IdentityReparam()
    fp.prime_parameters = ["x"]
    fp.parameters = ["x"]
    fp._x_dtype = get_dtype(["x"])
    fp._x_prime_dtype = get_dtype(["x"])
    fp.alt_dist = None
    fp.get_alt_distribution = lambda: None
    fp.prep_latent_prior = lambda: None
    fp._draw_func = lambda N: np.zeros((N, 1))
    fp._plot_pool = False
    fp.check_acceptance = False
    fp.population_time = datetime.timedelta()
    fp.populated_count = 0
    fp.populated = False
    fp.update_poolsize = False
    fp._poolsize = N
    fp._poolsize_scale = 1.0
    fp.acceptance = []
    fp.populating = False
    return fp


def _check_pool(ctx, model, samples, lo, hi, label):
    for i in range(len(samples)):
        x = samples["x"][i]
        ctx.prove((x >= lo) & (x <= hi), label + ": pool point within the prior bounds")
        lp = samples["logP"][i]
        ctx.prove(not (isinstance(lp, float) and not math.isfinite(lp)), label + ": pool point has a finite log-prior")
        if not isinstance(lp, float):
            ctx.prove_eq(lp, ctx.uf("LP", x), label + ": stored log-prior = model prior at the point")
        ctx.prove_eq(samples["logL"][i], ctx.uf("LL", x), label + ": stored log-likelihood = model likelihood at the point")
    for (x, lp) in model.ll_args:
        ctx.prove((x >= lo) & (x <= hi), label + ": the likelihood is never called outside the prior bounds")
        ctx.prove(not (isinstance(lp, float) and lp == -math.inf), label + ": the likelihood is never called where the prior vanishes")


def make_flow_populate(N, drawsize, accumulate, loops):
    def body(ctx):
        mut = getattr(ctx, "mutant", None)
        lo, hi = ctx.real("lo", -5, 5), ctx.real("hi", -5, 5)
        ctx.assume(lo < hi)
        model = _model(ctx, lo, hi)
        fp = _flow_proposal(ctx, model, N, drawsize, accumulate, loops)
        worst = None
        if ctx.mode == "sym":
            _symnp.symrandom.reset()
        # populate the pool (what the first draw does), look at the hand-out order, then draw
        try:
            fp.populate(worst, N=fp.poolsize)
            ctx.prove(sorted(int(i) for i in fp.indices) == list(range(len(fp.samples))), "the hand-out order is a permutation of the pool (each point exactly once)")
            first = fp.draw(worst)
        except IndexError as e:
            # Observed robustness defect OUTSIDE this property (recorded in DESIGN.md): when the flow returns a non-finite
            # density, backward_pass drops that row from x and log_prob but not from z, and check_prior_bounds then
            # indexes z with a shorter mask.  The property is about the contents of the pool, so these paths are pruned.
            ctx.cover("IndexError on non-finite flow density (outside the property)")
            ctx.assume(False)
        n_pool = len(fp.samples)
        ctx.prove(n_pool == N + (1 if mut == "size" else 0), "flow pool has exactly the requested size")
        _check_pool(ctx, model, fp.samples, lo, hi, "flow pool")
        ctx.prove(sorted(fp.indices + [i for i in range(n_pool) if i not in fp.indices]) == list(range(n_pool)) and len(set(fp.indices)) == len(fp.indices),
                  "pool indices are distinct positions")
        handed = [first]
        while fp.populated:
            handed.append(fp.draw(worst))
        ctx.prove(len(handed) == n_pool, "draw hands out each pool point exactly once before the pool is declared empty")
        ctx.cover("end")
    return body


class _NormStub:
    """scipy.stats.norm.logpdf of the augment parameters: -x^2/2 up to its constant, on symbolic values."""

    @staticmethod
    def logpdf(x):
        return -(x * x) / 2 - 0.9189385332046727


class FlowStub2(FlowStub):
    """Two-column flow output: the model parameter and one augment parameter."""

    def sample_and_log_prob(self, z=None, alt_dist=None, N=None):
        x, lq = super().sample_and_log_prob(z=z, alt_dist=alt_dist, N=N)
        ctx = self.ctx
        e = np.empty((len(x), 1), dtype=x.dtype)
        for i in range(len(x)):
            e[i, 0] = ctx.real(ctx.fresh("flow_e"), -6, 6)
        return np.concatenate([x, e], axis=1), lq


class IdentityReparam2(IdentityReparam):
    pass


def make_augmented_populate(N, drawsize, loops):
    """AugmentedFlowProposal: its backward_pass / log_prior overrides in front of the inherited population code."""
    def body(ctx):
        import nessai.proposal.augmented as aug
        from nessai.livepoint import get_dtype
        lo, hi = ctx.real("lo", -5, 5), ctx.real("hi", -5, 5)
        ctx.assume(lo < hi)
        model = _model(ctx, lo, hi)
        fp = _flow_proposal(ctx, model, N, drawsize, False, loops, cls=aug.AugmentedFlowProposal)
        fp.flow = FlowStub2(ctx, loops)
        fp.augment_dims, fp.augment_parameters, fp.marginalise_augment, fp.n_marg = 1, ["e_0"], False, 1
        fp.generate_augment = "gaussian"
        fp.parameters = ["x", "e_0"]
        fp.prime_parameters = ["x", "e_0"]
        fp._x_dtype = get_dtype(["x", "e_0"])
        fp._x_prime_dtype = get_dtype(["x", "e_0"])
        saved = aug.stats
        aug.stats = type("S", (), {"norm": _NormStub})()
        if ctx.mode == "sym":
            _symnp.symrandom.reset()
        try:
            try:
                fp.populate(None, N=fp.poolsize)
                first = fp.draw(None)
            except IndexError:
                ctx.cover("IndexError on non-finite flow density (outside the property)")
                ctx.assume(False)
        finally:
            aug.stats = saved
        n_pool = len(fp.samples)
        ctx.prove(n_pool == N, "augmented flow pool has exactly the requested size")
        ctx.prove("e_0" not in fp.samples.dtype.names, "auxiliary augment parameters are not part of the pool handed to the sampler")
        _check_pool(ctx, model, fp.samples, lo, hi, "augmented flow pool")
        handed = [first]
        while fp.populated:
            handed.append(fp.draw(None))
        ctx.prove(len(handed) == n_pool, "draw hands out each pool point exactly once before the pool is declared empty")
        ctx.cover("end")
    return body


def make_rejection_populate(N):
    def body(ctx):
        from nessai.proposal.rejection import RejectionProposal
        lo, hi = ctx.real("lo", -5, 5), ctx.real("hi", -5, 5)
        ctx.assume(lo < hi)
        model = _model(ctx, lo, hi)
        rp = RejectionProposal.__new__(RejectionProposal)
        rp.model = model
        rp._poolsize = N
        rp.populated = False
        rp.indices = []
        rp.samples = []
        rp.population_time = datetime.timedelta()
        rp._checked_population = True
        if ctx.mode == "sym":
            _symnp.symrandom.reset()
        try:
            rp.populate(N)
        except ValueError:
            # every prior value -inf: nanmax of an all -inf array is -inf and the pool is empty - acceptable
            ctx.assume(False)
        ctx.prove(len(rp.samples) <= N, "prior-rejection pool has at most the requested size")
        _check_pool(ctx, model, rp.samples, lo, hi, "rejection pool")
        ctx.prove(sorted(rp.indices) == list(range(len(rp.samples))), "pool indices are a permutation")
        ctx.cover("end")
    return body


def make_analytic(N):
    def body(ctx):
        from nessai.proposal.analytic import AnalyticProposal
        lo, hi = ctx.real("lo", -5, 5), ctx.real("hi", -5, 5)
        ctx.assume(lo < hi)
        model = _model(ctx, lo, hi)
        model.batch_evaluate_log_prior = lambda x, unit_hypercube=False: np.array([ctx.uf("LP", v) for v in x["x"]], dtype=object if ctx.mode == "sym" else float)
        ap = AnalyticProposal.__new__(AnalyticProposal)
        ap.model = model
        ap._poolsize = N
        ap.populated = False
        ap.indices = []
        ap.samples = []
        ap.population_time = datetime.timedelta()
        if ctx.mode == "sym":
            _symnp.symrandom.reset()
        got = [ap.draw(None)]
        n_pool = len(ap.samples)
        ctx.prove(n_pool == N, "analytic pool has the requested size")
        _check_pool(ctx, model, ap.samples, lo, hi, "analytic pool")
        while ap.populated:
            got.append(ap.draw(None))
        ctx.prove(len(got) == N, "each pool point handed out exactly once")
        ctx.cover("end")
    return body


class _ChiStub:
    """scipy.stats.chi for the radial latent samplers: cdf / ppf as uninterpreted monotone functions with ppf(cdf(y)) = y."""

    def __init__(self, ctx, df=None):
        self.ctx, self.df = ctx, df
        self.known = []

    def __call__(self, df):
        return _ChiStub(self.ctx, df)

    def cdf(self, y, df=None):
        ctx = self.ctx
        u = ctx.uf("chi_cdf", y)
        ctx.axiom((u >= 0) & (u <= 1))
        ctx.axiom(ctx.uf("chi_ppf", u) == y)            # ppf(cdf(y)) = y
        # gammaincinv(d/2, chi.cdf(y)) = y^2 / 2  (chi.cdf(y) = P(d/2, y^2/2))
        ctx.axiom(ctx.uf("gammaincinv", u) * 2 == y * y)
        self.known.append(u)
        _KNOWN_U.append(u)
        return u

    def ppf(self, u, df=None):
        ctx = self.ctx
        out = np.empty(len(u), dtype=object)
        for i in range(len(u)):
            p = ctx.uf("chi_ppf", u[i])
            ctx.axiom(p >= 0)
            for v in _KNOWN_U:                            # monotone on the ground instances
                ctx.axiom(~(u[i] <= v) | (p <= ctx.uf("chi_ppf", v)))
            out[i] = p
        return out


_KNOWN_U = []


def _gammaincinv_stub(ctx):
    def f(a, u):
        out = np.empty(len(u), dtype=object)
        for i in range(len(u)):
            g = ctx.uf("gammaincinv", u[i])
            ctx.axiom(g >= 0)
            for v in _KNOWN_U:
                ctx.axiom(~(u[i] <= v) | (g <= ctx.uf("gammaincinv", v)))
            out[i] = g
        return out
    return f


def make_latent_radius(kind, d):
    """No latent point lies outside the radius r * fuzz for the radially truncated latent priors."""
    def body(ctx):
        import nessai.utils.sampling as smp
        del _KNOWN_U[:]
        r = ctx.real("r", 0, 5)
        fuzz = ctx.real("fuzz", 1, 2)
        ctx.assume(r > 0)
        saved = (smp.stats, smp.gammaincinv)
        if ctx.mode == "sym":
            _symnp.symrandom.reset()

            def randn(*shape):
                out = np.empty(shape, dtype=object)
                flat = out.reshape(-1)
                tot = 0
                for i in range(flat.size):
                    flat[i] = ctx.real(ctx.fresh("g"), -6, 6)
                    tot = tot + flat[i] * flat[i]
                ctx.assume(tot > 0)     # a normal draw is the zero vector with probability zero
                return out
            _symnp.symrandom.handlers["randn"] = randn
            smp.stats = type("S", (), {"chi": _ChiStub(ctx)})()
            smp.gammaincinv = _gammaincinv_stub(ctx)
        try:
            if kind == "nsphere":
                z = smp.draw_nsphere(d, r=r, N=1, fuzz=fuzz)
            elif kind == "truncated_gaussian":
                z = smp.draw_truncated_gaussian(d, r, N=1, fuzz=fuzz)
            else:
                z = smp.NDimensionalTruncatedGaussian(d, r, fuzz=fuzz).sample(1)
        finally:
            smp.stats, smp.gammaincinv = saved
            if ctx.mode == "sym":
                _symnp.symrandom.reset()
        ctx.prove(z.shape == (1, d), "one latent point of the right dimension")
        n2 = 0
        for k in range(d):
            n2 = n2 + z[0, k] * z[0, k]
        lim = r * fuzz
        if getattr(ctx, "mutant", None) == "tight":
            lim = lim * 0.5
        ctx.prove_le(n2, lim * lim * (1 + 1e-9 if ctx.mode == "conc" else 1), "no latent point lies outside the radius r * fuzz")
        ctx.cover("end")
    return body


def make_latent_prep(latent_prior):
    """Two successive populations with different radii through the real configure_latent_prior / prep_latent_prior /
    draw_latent_prior: no latent point of either lies outside its own radius * fuzz (post-update state of the proposal)."""
    def body(ctx):
        import nessai.utils.sampling as smp
        from nessai.proposal.flowproposal import FlowProposal
        del _KNOWN_U[:]
        d = 2
        fuzz = ctx.real("fuzz", 1, 2)
        radii = [ctx.real("r1", 0, 5), ctx.real("r2", 0, 5)]
        ctx.assume((radii[0] > 0) & (radii[1] > 0))
        saved = (smp.stats, smp.gammaincinv)
        if ctx.mode == "sym":
            _symnp.symrandom.reset()

            def randn(*shape):
                out = np.empty(shape, dtype=object)
                flat = out.reshape(-1)
                tot = 0
                for i in range(flat.size):
                    flat[i] = ctx.real(ctx.fresh("g"), -6, 6)
                    tot = tot + flat[i] * flat[i]
                ctx.assume(tot > 0)
                return out
            _symnp.symrandom.handlers["randn"] = randn
            smp.stats = type("S", (), {"chi": _ChiStub(ctx)})()
            smp.gammaincinv = _gammaincinv_stub(ctx)
        fp = FlowProposal.__new__(FlowProposal)
        fp.latent_prior = latent_prior
        fp.parameters = ['x', 'y']    # dims = 2
        fp.fuzz = fuzz
        zs = []
        try:
            fp.configure_latent_prior()
            for r in radii:
                fp.r = r
                fp.prep_latent_prior()
                zs.append(fp.draw_latent_prior(1))
        finally:
            smp.stats, smp.gammaincinv = saved
            if ctx.mode == "sym":
                _symnp.symrandom.reset()
        for k, (z, r) in enumerate(zip(zs, radii)):
            ctx.prove(z.shape == (1, d), "one latent point of the right dimension")
            n2 = 0
            for j in range(d):
                n2 = n2 + z[0, j] * z[0, j]
            lim = r * fuzz
            ctx.prove_le(n2, lim * lim * (1 + 1e-9 if ctx.mode == "conc" else 1), f"population {k + 1}: no latent point lies outside its radius r * fuzz")
        ctx.cover("end")
    return body


def make_in_bounds():
    """Model.in_bounds with two parameters whose bounds dictionary is in either order: True exactly for points inside
    every parameter's own bounds (what check_prior_bounds relies on to drop flow samples)."""
    def body(ctx):
        from nessai.model import Model
        b = {n: (ctx.real(f"lo_{n}", -5, 5), ctx.real(f"hi_{n}", -5, 5)) for n in ("x", "y")}
        ctx.assume((b["x"][0] < b["x"][1]) & (b["y"][0] < b["y"][1]))
        order = [("x", "y"), ("y", "x")][ctx.choice("bounds_dict_order", 2)]

        class M(Model):
            names = ["x", "y"]
            bounds = {n: [b[n][0], b[n][1]] for n in order}

            def log_prior(self, x):
                raise NotImplementedError

            def log_likelihood(self, x):
                raise NotImplementedError
        m = M()
        n = 2
        pts = np.zeros(n, dtype=[("x", object if ctx.mode == "sym" else float), ("y", object if ctx.mode == "sym" else float)])
        for i in range(n):
            for nm in ("x", "y"):
                pts[nm][i] = ctx.real(f"{nm}{i}", -6, 6)
        got = m.in_bounds(pts)
        for i in range(n):
            want = (pts["x"][i] >= b["x"][0]) & (pts["x"][i] <= b["x"][1]) & (pts["y"][i] >= b["y"][0]) & (pts["y"][i] <= b["y"][1])
            g = got[i]
            if isinstance(g, (bool, np.bool_)):
                ctx.prove(want if g else NOT(want), "in_bounds is True exactly for points inside every parameter's own bounds")
            else:
                ctx.prove((g & want) | (NOT(g) & NOT(want)), "in_bounds is True exactly for points inside every parameter's own bounds")
        ctx.cover("end")
    return body


def units(tier):
    us = []
    q = tier == "quick"
    opts = dict()
    # (N, population-loop bound): the thorough tier deepens the loop for N = 1 and adds N = 3; N >= 2 with three loop iterations
    # does not finish within the unit budget (measured: unexplored subtrees after 900 s) and is outside the claim
    sizes = [(1, 2), (2, 2)] if q else [(1, 3), (2, 2), (3, 2)]
    for acc in (False, True):
        for (N, loops) in sizes:
            if acc and N >= 2:
                continue     # accumulate_weights with N >= 2: the solver returns 'unknown' on single branches within the timeout - outside the claim
            us.append(Unit(f"flow_populate[N={N},drawsize=2,accumulate={acc},loops<={loops}]", make_flow_populate(N, 2, acc, loops), MODS, opts, expect_cover=["end"],
                           mutants=["size"] if (N, acc) == (1, False) else [], twin_runs=20, witness_every=10, setup=setup, nproc=1, time_budget_s=900))
    for N in (1,):
        us.append(Unit(f"augmented_populate[N={N},drawsize=2]", make_augmented_populate(N, 2, 2), MODS + ["nessai.proposal.augmented"], opts, expect_cover=["end"],
                       twin_runs=20, witness_every=10, setup=setup, nproc=1, time_budget_s=900))
    nl = dict(exp_axioms="signs", fresh=True, timeout_ms=60000)
    for kind in ("nsphere", "truncated_gaussian", "class"):
        for d in ((2, 3) if q else (1, 2, 3)):
            us.append(Unit(f"latent_radius[{kind},d={d}]", make_latent_radius(kind, d), MODS + ["nessai.utils.sampling"], nl, expect_cover=["end"],
                           mutants=["tight"] if (kind, d) == ("nsphere", 2) else [], twin_runs=30, witness_every=1, nproc=1, time_budget_s=600))
    us.append(Unit("in_bounds[2 params, either dict order]", make_in_bounds(), MODS, opts, expect_cover=["end"], twin_runs=30, witness_every=4, setup=setup, nproc=1))
    for lp in ("truncated_gaussian", "uniform_nsphere"):
        us.append(Unit(f"latent_prep[{lp},two populations]", make_latent_prep(lp), MODS + ["nessai.utils.sampling"], nl, expect_cover=["end"],
                       twin_runs=30, witness_every=1, nproc=1, time_budget_s=600))
    for N in ((1, 2) if q else (1, 2, 3)):
        us.append(Unit(f"rejection_populate[N={N}]", make_rejection_populate(N), MODS, opts, expect_cover=["end"], twin_runs=20, witness_every=5, setup=setup, nproc=1))
        us.append(Unit(f"analytic[N={N}]", make_analytic(N), MODS, opts, expect_cover=["end"], twin_runs=10, witness_every=3, setup=setup, nproc=1))
    return us
