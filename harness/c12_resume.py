"""C12 - resuming restores the checkpointed state (bookkeeping part).

pickle is modelled as a deep copy of what the real `__getstate__` returns,
fed to the real `__setstate__` (or the default dict update); then the real
`resume_from_pickled_sampler` / `resume` / `check_resume` chain runs.  Result
bearing attributes are symbolic values or tagged arrays, the flag vector and
the kind of the saved flow mask are nondeterministic choices, evaluation
counts per run segment are symbolic integers.
"""
import copy
import datetime
import os

import numpy as np

from sx.logic import AND, IMPLIES, NOT, OR
from sx.runner import Unit

ID = "C12"
FUNCTIONS = [
    "nessai.samplers.base.BaseNestedSampler.checkpoint",
    "nessai.samplers.nestedsampler.NestedSampler.nested_sampling_loop",
    "nessai.samplers.importancesampler.ImportanceNestedSampler.nested_sampling_loop",
    "nessai.samplers.importancesampler.ImportanceNestedSampler.finalise",
    "nessai.samplers.importancesampler.ImportanceNestedSampler.checkpoint",
    "nessai.samplers.base.BaseNestedSampler.__getstate__",
    "nessai.samplers.base.BaseNestedSampler.resume_from_pickled_sampler",
    "nessai.samplers.nestedsampler.NestedSampler.resume_from_pickled_sampler",
    "nessai.samplers.nestedsampler.NestedSampler.check_resume",
    "nessai.samplers.importancesampler.ImportanceNestedSampler.__getstate__",
    "nessai.samplers.importancesampler.ImportanceNestedSampler.__setstate__",
    "nessai.samplers.importancesampler.OrderedSamples.__getstate__",
    "nessai.proposal.base.Proposal.__getstate__",
    "nessai.proposal.base.Proposal.resume",
    "nessai.proposal.flowproposal.FlowProposal.__getstate__",
    "nessai.proposal.flowproposal.FlowProposal.resume",
    "nessai.proposal.importance.ImportanceFlowProposal.__getstate__",
    "nessai.proposal.importance.ImportanceFlowProposal.__setstate__",
    "nessai.flowmodel.base.FlowModel.__getstate__",
    "nessai.flowmodel.importance.ImportanceFlowModel.__getstate__",
    "nessai.flowmodel.importance.ImportanceFlowModel.resume",
    "nessai.flowmodel.importance.ImportanceFlowModel.update_weights_path",
    "nessai.flowmodel.importance.ImportanceFlowModel.load_all_weights",
    "nessai.flowmodel.importance.ImportanceFlowModel.add_new_flow",
    "nessai.model.Model.__getstate__",
]
BOUNDS = {
    "quick": dict(cycles="1..3 checkpoint/resume cycles", live_points=2, flags="all combinations of populated / indices empty / uninformed / mask kind (None, list, ndarray)",
                  clock="checkpoint_clock: 2 checkpoints (signal / forced / periodic, interval met or not) at arbitrary non-decreasing instants; resume_clock: one checkpoint, arbitrary downtime, loop entry with the stopping rule met, one further checkpoint",
                  ins_flowmodel_cycles="2 checkpoint/resume cycles of ImportanceFlowModel, 1..3 flows before the first, 0..2 trained in between, 0..1 stale weights files"),
    "thorough": dict(cycles="1..5 checkpoint/resume cycles", live_points=3, flags="all combinations of populated / indices empty / uninformed / mask kind (None, list, ndarray)",
                     clock="checkpoint_clock: 4 checkpoints; resume_clock as in the quick tier",
                     ins_flowmodel_cycles="as in the quick tier"),
}
SCOPE = "Attributes are compared field by field between the writer and the restored object; symbolic values make a swapped or recomputed field visible."
ASSUMPTIONS = [
    "pickle round-trips a state dictionary faithfully (deep copy); torch weight files are outside this check (C11)",
    "the resuming process passes a fresh model object (evaluation counter 0), as a new process does",
    "FlowProposal.initialise (network construction, torch) is a stub; in the sampler-level units the proposal's flow model is a stub object",
    "ins_flowmodel_cycles: the real ImportanceFlowModel methods run with torch (ModuleList = list with eval(), device, load = identity on the path), glob.glob (returns the weights files written so far, in reverse order), configure_model (tagged stub flow), update_flow_config (identity), FlowModel.initialise and reset_optimiser stubbed",
    "checkpoint_clock / resume_clock: datetime.datetime.now() returns arbitrary non-decreasing instants; safe_file_dump and the checkpoint callback are no-ops; in resume_clock the stopping rule is already met when the run is resumed, so the loop body is not entered (nothing in it touches the clock), finalisation internals (final flow, plots, KL) are stubs",
]
OUTSIDE = ["real pickle / torch serialisation", "that a killed-and-resumed real run completes (bookkeeping of the interrupted iteration: C13)", "float32 agreement of re-derived densities"]

PARALLEL_UNITS = True
MODS = []


class _Path:
    def exists(self, p):
        return True   # the weights file the checkpoint refers to exists (its integrity is C11's subject)

    def __getattr__(self, name):
        import os
        return getattr(os.path, name)


class _OS:
    path = _Path()

    def __getattr__(self, name):
        import os
        return getattr(os, name)


EXTRA = {"nessai.proposal.flowproposal": {"os": _OS()}}


class _Model:
    def __init__(self, n=0, t=0.0):
        self.likelihood_evaluations = n
        self.likelihood_evaluation_time = datetime.timedelta(seconds=t)
        self.names = ["x"]

    def from_unit_hypercube(self, x):
        return x


def _same(ctx, a, b, label):
    """Deep comparison of two attribute values; symbolic leaves are compared by the solver."""
    from sx.values import Sym
    if isinstance(a, Sym) or isinstance(b, Sym):
        return ctx.prove_eq(a, b, label)
    if isinstance(a, np.ndarray) or isinstance(b, np.ndarray):
        if not (isinstance(a, np.ndarray) and isinstance(b, np.ndarray)) or a.shape != b.shape or a.dtype != b.dtype:
            return ctx.prove(False, label)
        if a.dtype.names:
            ok = True
            for n in a.dtype.names:
                ok = _same(ctx, a[n], b[n], label) and ok
            return ok
        if a.dtype == object:
            ok = True
            for x, y in zip(a.reshape(-1), b.reshape(-1)):
                ok = _same(ctx, x, y, label) and ok
            return ok
        return ctx.prove(bool(np.array_equal(a, b, equal_nan=True)), label)
    if isinstance(a, dict) and isinstance(b, dict):
        if set(a) != set(b):
            return ctx.prove(False, label + " (keys)")
        ok = True
        for k in a:
            ok = _same(ctx, a[k], b[k], label) and ok
        return ok
    if isinstance(a, (list, tuple)) and isinstance(b, (list, tuple)):
        if len(a) != len(b):
            return ctx.prove(False, label + " (length)")
        ok = True
        for x, y in zip(a, b):
            ok = _same(ctx, x, y, label) and ok
        return ok
    if isinstance(a, float) and isinstance(b, float) and a != a and b != b:
        return ctx.prove(True, label)
    if hasattr(a, "__dict__") and type(a) is type(b) and not callable(a):
        return _same(ctx, {k: v for k, v in a.__dict__.items() if not callable(v)}, {k: v for k, v in b.__dict__.items() if not callable(v)}, label)
    return ctx.prove(a == b if not callable(a) else True, label)


def _dtype(ctx):
    f = "O" if ctx.mode == "sym" else "f8"
    return np.dtype([("x", f), ("logP", f), ("logL", f), ("it", "i4")])


def _points(ctx, n, prefix):
    a = np.empty(n, dtype=_dtype(ctx))
    for i in range(n):
        a[i] = (ctx.real(f"{prefix}x{i}"), ctx.real(f"{prefix}P{i}"), ctx.real(f"{prefix}L{i}"), i)
    return a


class _FlowStub:
    def __init__(self, mask_kind, weights_file):
        self.weights_file = weights_file
        self.flow_config = {}
        if mask_kind == "list":
            self.flow_config["mask"] = [1, -1]
        elif mask_kind == "ndarray":
            self.flow_config["mask"] = np.array([1.0, -1.0])
        self.reloaded = None

    def reload_weights(self, wf):
        self.reloaded = wf
        self.weights_file = wf   # as FlowModel.load_weights does


def _standard_sampler(ctx, nlive, model):
    from nessai.samplers.nestedsampler import NestedSampler
    from nessai.proposal.flowproposal import FlowProposal
    from nessai.proposal.analytic import AnalyticProposal
    from nessai.evidence import _NSIntegralState
    ns = NestedSampler.__new__(NestedSampler)
    ns.model = model
    ns.nlive = nlive
    ns.iteration = 3 + ctx.choice("iteration", 2)
    ns.live_points = _points(ctx, nlive, "live")
    ns.nested_samples = list(_points(ctx, 2, "dead"))
    ns.insertion_indices = [0, 1]
    ns.state = _NSIntegralState(nlive, track_gradients=False)
    ns.state.logZ = ctx.real("logZ")
    ns.state.logw = ctx.real("logw")
    ns.state.logLs = [-np.inf, ctx.real("sL0"), ctx.real("sL1")]
    ns.state.log_vols = [0.0, ctx.real("v0"), ctx.real("v1")]
    ns.state.info = [0.0, ctx.real("H")]
    ns.state.nlive = [nlive, nlive]
    ns.history = dict(iterations=[1, 2], min_log_likelihood=[ctx.real("h0")], checkpoint_iterations=[2])
    ns.condition = ctx.real("cond")
    ns.logLmin, ns.logLmax = ctx.real("lmin"), ctx.real("lmax")
    ns.accepted, ns.rejected = 5, 2
    ns.block_acceptance, ns.block_iteration = ctx.real("bacc"), 2
    ns.acceptance_history = [ctx.real("ah0")]
    ns.training_iterations = [1]
    ns.completed_training = bool(ctx.choice("completed_training", 2))
    ns.uninformed_sampling = bool(ctx.choice("uninformed", 2))
    ns.finalised = False
    ns.initialised = True
    ns.resumed = False
    ns.sampling_time = datetime.timedelta(seconds=12)
    ns.training_time = datetime.timedelta(seconds=3)
    ns.checkpoint_callback = lambda s: None
    ns.seed = 1234
    fp = FlowProposal.__new__(FlowProposal)
    mask_kind = ["none", "list", "ndarray"][ctx.choice("mask_kind", 3)]
    has_w = bool(ctx.choice("has_weights", 2))
    fp.flow = _FlowStub(mask_kind, "out/model.pt" if has_w else None)
    fp.model = model
    fp._flow_config = dict(n_neurons=4, **fp.flow.flow_config)
    fp.populated = bool(ctx.choice("populated", 2))
    fp.indices = [3, 1] if ctx.choice("indices_nonempty", 2) else []
    fp.samples = _points(ctx, 2, "pool")
    fp.training_count = 2
    fp.population_time = datetime.timedelta(seconds=1)
    fp.r = ctx.real("radius")
    fp.initialised = True
    fp._draw_func = lambda: None
    fp._populate_dist = lambda: None
    fp._checked_population = True
    fp.acceptance = [ctx.real("acc0")]
    # reparameterisation state after a data-dependent update (bounds learnt from the live points)
    from nessai.reparameterisations.rescale import RescaleToBounds
    from nessai.reparameterisations.combined import CombinedReparameterisation
    rb = RescaleToBounds(parameters=["x"], prior_bounds={"x": [-5.0, 5.0]}, update_bounds=True)
    rb.bounds = {"x": [ctx.real("rb_lo"), ctx.real("rb_hi")]}
    comb = CombinedReparameterisation()
    comb.add_reparameterisations([rb])
    fp._reparameterisation = comb

    def initialise(resumed=False):
        fp2 = initialise.target
        # the real initialise builds the flow model from the proposal's flow configuration (mask included)
        fl = _FlowStub("none", None)
        fl.flow_config = dict(fp2.flow_config)
        fp2.flow = fl
        fp2.initialised = True
        fp2.populated = False   # as the real initialise does
    fp.initialise = initialise
    up = AnalyticProposal.__new__(AnalyticProposal)
    up.model = model
    up.populated = False
    up.samples = []
    up.indices = []
    up._initialised = True
    up.training_count = 0
    up.population_time = datetime.timedelta()
    ns._flow_proposal = fp
    ns._uninformed_proposal = up
    ns.proposal = up if ns.uninformed_sampling else fp
    return ns, mask_kind, has_w


EXCLUDED = {"model", "proposal", "checkpoint_callback", "_previous_likelihood_evaluations", "_previous_likelihood_evaluation_time", "resumed"}
FP_EXCLUDED = {"model", "_flow_config", "flow", "initialised", "weights_file", "mask", "resume_populated", "_draw_func", "_populate_dist", "initialise", "populated"}


def make_standard(nlive, cycles):
    def body(ctx):
        from nessai.samplers.nestedsampler import NestedSampler
        mut = getattr(ctx, "mutant", None)
        hi = None if ctx.mode == "sym" else 50
        seg = [ctx.int(f"evals{c}", 0, hi) for c in range(cycles + 1)]
        tseg = [1.5 * (c + 1) for c in range(cycles + 1)]
        model = _Model(0, 0.0)
        ns, mask_kind, has_w = _standard_sampler(ctx, nlive, model)
        total, ttotal = 0, 0.0
        for c in range(cycles):
            # a segment of the run evaluates some likelihoods
            ns.model.likelihood_evaluations = ns.model.likelihood_evaluations + seg[c]
            ns.model.likelihood_evaluation_time += datetime.timedelta(seconds=tseg[c])
            total = total + seg[c]
            ttotal += tseg[c]
            before = {k: v for k, v in ns.__dict__.items()}
            fp_before = dict(ns._flow_proposal.__dict__)
            state = copy.deepcopy(ns.__getstate__())      # pickle.dump / pickle.load
            new = NestedSampler.__new__(NestedSampler)
            new.__dict__.update(state)
            new._flow_proposal.initialise.target = new._flow_proposal
            model2 = _Model(0, 0.0)                        # fresh process, fresh model
            try:
                NestedSampler.resume_from_pickled_sampler(new, model2, flow_config={}, weights_path=None)
            except Exception as e:
                ctx.fail("resume raised " + type(e).__name__, f"mask_kind={mask_kind}: {type(e).__name__}: {e}")
                return
            new.proposal = new._uninformed_proposal if new.uninformed_sampling else new._flow_proposal
            new.check_proposal_switch = lambda force=False: None
            new.check_resume()
            # ---- observational identity -------------------------------------------------
            for k, v in before.items():
                if k in EXCLUDED or k in ("_flow_proposal", "_uninformed_proposal") or callable(v):
                    continue
                if k not in new.__dict__:
                    ctx.fail(f"attribute {k} lost on resume")
                    continue
                _same(ctx, v, new.__dict__[k], f"sampler attribute '{k}' restored")
            fpn = new._flow_proposal
            for k, v in fp_before.items():
                if k in FP_EXCLUDED or callable(v):
                    continue
                _same(ctx, v, fpn.__dict__.get(k), f"flow proposal attribute '{k}' restored")
            was_usable = fp_before["populated"] and bool(fp_before["indices"])
            ctx.prove(fpn.populated == (was_usable if mut != "pool" else not was_usable), "the proposal pool is usable after resume iff it was when checkpointed")
            ctx.prove(new.model is model2 and fpn.model is model2 and new._uninformed_proposal.model is model2, "the new model is attached everywhere")
            if mask_kind != "none":
                ctx.prove(bool(np.array_equal(np.asarray(fpn.flow_config["mask"]), np.array([1, -1]))), "the flow mask is restored into the flow configuration")
            if has_w:
                ctx.prove(fpn.weights_file == "out/model.pt", "the weights file recorded in the checkpoint is kept")
            ctx.prove(model2.likelihood_evaluations == total, "likelihood-evaluation count continues from the checkpoint (neither reset nor doubled)")
            ctx.prove(abs(model2.likelihood_evaluation_time.total_seconds() - ttotal) < 1e-6, "likelihood-evaluation time continues from the checkpoint")
            ns = new
            ns.checkpoint_callback = lambda s: None
        ctx.cover("end")
    return body


def make_ins(save_log_q, iid):
    def body(ctx):
        from nessai.samplers.importancesampler import ImportanceNestedSampler, OrderedSamples
        from nessai.proposal.importance import ImportanceFlowProposal
        hi = None if ctx.mode == "sym" else 50
        n_eval = ctx.int("evals", 0, hi)
        model = _Model(0, 7.5)        # 7.5 s spent evaluating likelihoods before the checkpoint
        model.likelihood_evaluations = n_eval
        ins = ImportanceNestedSampler.__new__(ImportanceNestedSampler)
        ins.model = model
        ins.iteration = 4
        ins.nlive = 3
        ins.sample_counts = {-1: 3, 0: 3}
        ins.history = dict(n_added=[3], n_removed=[1], stopping_criteria=dict(ratio=[ctx.real("crit")]))
        ins.log_likelihood_threshold = ctx.real("T")
        ins.criterion = [ctx.real("c0")]
        ins.checkpoint_callback = None
        ins.finalised = False
        ins.sampling_time = datetime.timedelta(seconds=3)
        ins.training_time = datetime.timedelta(seconds=1)
        ts = OrderedSamples(strict_threshold=False, replace_all=False, save_log_q=save_log_q)
        ts.samples = _points(ctx, 3, "ts")
        ts.log_q = np.array([[0.0, ctx.real("q01")], [0.0, ctx.real("q11")], [0.0, ctx.real("q21")]], dtype=object if ctx.mode == "sym" else float)
        ts.live_points_indices = np.array([1, 2])
        ts.nested_samples_indices = np.array([0])
        ts.log_likelihood_threshold = ins.log_likelihood_threshold
        ins.training_samples = ts
        ins.iid_samples = None
        ins.draw_iid_live = iid
        if iid:
            it = OrderedSamples(strict_threshold=False, replace_all=False, save_log_q=save_log_q)
            it.samples = _points(ctx, 2, "iid")
            it.log_q = np.zeros((2, 2))
            it.live_points_indices = np.array([0, 1])
            ins.iid_samples = it
        prop = ImportanceFlowProposal.__new__(ImportanceFlowProposal)
        prop.model = model
        prop._flow_config = dict(a=1)
        prop.flow = dict(stub="flow-model", n=2)
        prop._weights = {-1: 0.5, 0: 0.5}
        prop.level_count = 0
        prop.n_draws = {-1: 3, 0: 3}
        ins.proposal = prop
        before = dict(ins.__dict__)
        ts_before, prop_before = dict(ts.__dict__), dict(prop.__dict__)
        state = copy.deepcopy(ins.__getstate__())
        new = ImportanceNestedSampler.__new__(ImportanceNestedSampler)
        new.__setstate__(state)
        ts_state = copy.deepcopy(ts.__getstate__())
        prop_state = copy.deepcopy(prop.__getstate__())
        new.training_samples = OrderedSamples.__new__(OrderedSamples)
        new.training_samples.__dict__.update(ts_state)
        if iid:
            st2 = copy.deepcopy(ins.iid_samples.__getstate__())
            new.iid_samples = OrderedSamples.__new__(OrderedSamples)
            new.iid_samples.__dict__.update(st2)
        new.proposal = ImportanceFlowProposal.__new__(ImportanceFlowProposal)
        new.proposal.__setstate__(prop_state)
        for k, v in before.items():
            if k in ("model", "proposal", "checkpoint_callback", "training_samples", "iid_samples") or callable(v):
                continue
            if k not in new.__dict__:
                ctx.fail(f"attribute {k} lost on resume")
                continue
            _same(ctx, v, new.__dict__[k], f"sampler attribute '{k}' restored")
        ctx.prove(new._previous_likelihood_evaluations == n_eval, "checkpoint carries the evaluation count")
        for k, v in ts_before.items():
            if k == "log_q":
                continue
            _same(ctx, v, new.training_samples.__dict__.get(k), f"sample store attribute '{k}' restored")
        if save_log_q:
            _same(ctx, ts_before["log_q"], new.training_samples.log_q, "saved density table restored")
        else:
            ctx.prove(new.training_samples.log_q is None, "density table dropped when save_log_q is False (must be re-derived)")
        for k, v in prop_before.items():
            if k in ("model", "_flow_config"):
                continue
            _same(ctx, v, new.proposal.__dict__.get(k), f"proposal attribute '{k}' restored")
        ctx.prove("model" not in new.proposal.__dict__ and "_flow_config" not in new.proposal.__dict__, "model and flow configuration are not pickled with the proposal")
        # ---- the real resume: re-attachment and re-derivation of dropped density tables -----------
        calls = []

        class Prop:
            def resume(self, model, flow_config, weights_path=None):
                self.resumed_with = (model, flow_config, weights_path)

            def compute_meta_proposal_samples(self, samples):
                calls.append(samples)
                return None, ("log_q of", id(samples))
        new.proposal = Prop()
        new.add_fields = lambda: None
        model2 = _Model(0, 0.0)
        ImportanceNestedSampler.log_evidence_error_backup = None
        try:
            st_logz = type("S", (), {"logZ": 0.0, "compute_uncertainty": lambda self: 0.0})()
            for store in (new.training_samples, new.iid_samples):
                if store is not None:
                    store.state = st_logz
            ImportanceNestedSampler.resume_from_pickled_sampler.__func__(ImportanceNestedSampler, new, model2, flow_config={}, weights_path=None)
        except Exception as e:
            ctx.fail("INS resume raised " + type(e).__name__, str(e))
            return
        ctx.prove(model2.likelihood_evaluations == n_eval, "INS: evaluation count continues from the checkpoint")
        ctx.prove(abs(model2.likelihood_evaluation_time.total_seconds() - 7.5) < 1e-6, "INS: likelihood-evaluation time continues from the checkpoint")
        ctx.prove(new.model is model2 and new.proposal.resumed_with[0] is model2, "INS: the new model is attached to sampler and proposal")
        want = [new.training_samples.samples] + ([new.iid_samples.samples] if iid else [])
        if save_log_q:
            # saved tables need not be recomputed; an implementation that recomputes them anyway must use each set's own samples
            ctx.prove(calls == [] or (len(calls) == len(want) and all(a is b for a, b in zip(calls, want))), "saved density tables are kept, or re-derived from their own sample set")
        else:
            ctx.prove(len(calls) == len(want) and all(a is b for a, b in zip(calls, want)), "each dropped density table is re-derived from its own sample set")
            ctx.prove(new.training_samples.log_q == ("log_q of", id(new.training_samples.samples)), "training density table re-derived from the training samples")
            if iid:
                ctx.prove(new.iid_samples.log_q == ("log_q of", id(new.iid_samples.samples)), "independent-set density table re-derived from the independent samples")
        ctx.cover("end")
    return body


class _Delta:
    def __init__(self, s):
        self.s = s

    def __add__(self, o):
        return _Delta(self.s + o.s)

    __radd__ = __add__

    def total_seconds(self):
        return self.s


class _Instant:
    def __init__(self, t):
        self.t = t

    def __sub__(self, o):
        return _Delta(self.t - o.t)


def make_checkpoint_clock(mode, k):
    """The real BaseNestedSampler.checkpoint with the clock replaced by arbitrary non-decreasing instants: after any number
    of checkpoints the accumulated sampling time lies between the time spent sampling (excluding the time spent writing
    checkpoints) and the wall-clock time since the (re)start, i.e. it is neither reset nor double counted."""
    def body(ctx):
        import nessai.samplers.base as base
        from nessai.samplers.nestedsampler import NestedSampler
        instants = []

        class _DT:
            @staticmethod
            def now():
                t = ctx.real(ctx.fresh("t"), 0, 1000)
                if instants:
                    ctx.assume(t >= instants[-1])
                instants.append(t)
                return _Instant(t)
        fake = type("fake_datetime", (), {"datetime": _DT, "timedelta": datetime.timedelta})
        ns = NestedSampler.__new__(NestedSampler)
        s0 = ctx.real("sampling_time_before", 0, 1000)      # a resumed run carries the time of the earlier segments
        ns.sampling_time = _Delta(s0)
        ns.history = None
        ns.iteration = 5
        ns.checkpoint_on_iteration = True
        ns._last_checkpoint = 0
        ns.checkpoint_interval = 1 + ctx.choice("interval", 2) * 100      # met / not met
        ns.resume_file = "out/resume.pkl"
        dumps = []
        ns.checkpoint_callback = (lambda s: dumps.append("cb")) if mode == "callback" else None
        saved = (base.datetime, base.safe_file_dump)
        base.datetime = fake
        base.safe_file_dump = lambda *a, **kw: dumps.append("file")
        try:
            ns.sampling_start_time = base.datetime.datetime.now()
            sampled = 0          # time between (re)start / end of a dump and the next checkpoint call
            for c in range(k):
                how = ["signal", "forced", "periodic"][ctx.choice(f"how{c}", 3)]
                n_before, d_before = len(instants), len(dumps)
                start = instants[-1]
                ns.iteration = ns.iteration + 1
                if how == "signal":
                    ns.checkpoint(periodic=False)
                elif how == "forced":
                    ns.checkpoint(periodic=True, force=True)
                else:
                    ns.checkpoint(periodic=True)
                wrote = len(dumps) > d_before
                if wrote and len(instants) > n_before:
                    sampled = sampled + (instants[n_before] - start)
                else:
                    ctx.prove(how == "periodic" and ns.checkpoint_interval > 1, "a checkpoint is skipped only when periodic and the interval has not passed")
                st = ns.sampling_time.total_seconds()
                wall = instants[-1] - instants[0]
                ctx.prove(st >= s0 + sampled, "sampling time is not reset: it includes every segment sampled so far")
                ctx.prove(st <= s0 + wall, "sampling time is not double counted: it never exceeds the earlier total plus the wall-clock time since the (re)start")
        finally:
            base.datetime, base.safe_file_dump = saved
        ctx.cover("end")
    return body


def make_resume_clock(which):
    """Timing across a resume: the checkpoint written by the real checkpoint() is loaded in a 'new process' after an arbitrary
    downtime, the real loop entry of the sampler runs (configured to stop at once) up to its next real checkpoint; the sampling
    time then lies between the checkpointed total and that total plus the wall-clock time of the new process (the segment before
    the checkpoint and the downtime are not counted again)."""
    def body(ctx):
        import nessai.samplers.base as base
        from nessai.samplers.nestedsampler import NestedSampler
        from nessai.samplers.importancesampler import ImportanceNestedSampler
        import nessai.samplers.nestedsampler as nsm
        import nessai.samplers.importancesampler as insm
        cls = NestedSampler if which == "standard" else ImportanceNestedSampler
        instants = []

        class _DT:
            @staticmethod
            def now():
                t = ctx.real(ctx.fresh("t"), 0, 1000)
                if instants:
                    ctx.assume(t >= instants[-1])
                instants.append(t)
                return _Instant(t)
        fake = type("fake_datetime", (), {"datetime": _DT, "timedelta": datetime.timedelta})
        snaps = []
        old = cls.__new__(cls)
        s0 = ctx.real("sampling_time_before", 0, 1000)
        old.sampling_time = _Delta(s0)
        old.history = None
        old.iteration = 5
        old.checkpoint_on_iteration = True
        old._last_checkpoint = 0
        old.checkpoint_interval = 1
        old.resume_file = "out/resume.pkl"
        old.save_existing_checkpoint = False
        old.checkpoint_callback = lambda s: snaps.append(dict(s.__dict__))      # what pickle sees at dump time
        mods = [base, nsm, insm]
        saved = [(m, m.datetime) for m in mods if hasattr(m, "datetime")]
        for m, _ in saved:
            m.datetime = fake
        try:
            old.sampling_start_time = base.datetime.datetime.now()
            old.checkpoint(periodic=True, force=True)
            ctx.prove(len(snaps) == 1, "the checkpoint was written")
            if len(snaps) != 1:
                return
            s_ckpt = snaps[0]["sampling_time"].total_seconds()
            # ---- new process, after an arbitrary downtime ------------------------------------------------------------
            n_old = len(instants)
            new = cls.__new__(cls)
            new.__dict__.update(snaps[0])
            new.checkpoint_callback = lambda s: snaps.append(dict(s.__dict__))
            new.finalised = False
            new._close_pool = False
            new.training_time = datetime.timedelta()
            new.model = type("M", (), {"likelihood_evaluations": 3, "likelihood_evaluation_time": datetime.timedelta(), "from_unit_hypercube": staticmethod(lambda x: x)})()
            st = type("S", (), {"logZ": 0.0, "log_evidence_error": 0.1, "info": [0.0], "compute_uncertainty": lambda self: 0.1, "effective_n_posterior_samples": 1.0})()
            if which == "standard":
                new.initialised = True
                new.prior_sampling = False
                new.check_resume = lambda: None
                new.iteration = 0
                new.condition, new.tolerance = 0.0, 1.0          # stopping rule already met: the loop body is not entered
                new.state = st
                new.finalise = lambda: None
                new.check_insertion_indices = lambda rolling=False: None
                new._uninformed_proposal = new._flow_proposal = type("P", (), {"population_time": datetime.timedelta()})()
                new.nested_samples = []
                try:
                    new.nested_sampling_loop()
                except Exception as e:
                    ctx.fail("the resumed loop entry raised " + type(e).__name__, str(e))
                    return
            else:
                new.initialise = lambda: None
                new._stop_any = True
                new.criterion, new.tolerance, new.min_iteration = [0.0], [1.0], 0     # stopping rule already met
                new.stopping_criterion = ["ratio"]
                new._train_final_flow = False
                new.draw_iid_live = False
                new.bootstrap = False
                new.iid_samples = None
                new.training_samples = type("T", (), {"finalise": lambda self: None, "samples": np.zeros(1), "state": st})()
                new.kl_divergence = lambda x: 0.0
                new.produce_plots = lambda: None
                new.draw_samples_time = new.add_and_update_samples_time = datetime.timedelta()
                new.plot = False
                try:
                    new.nested_sampling_loop()
                except Exception as e:
                    ctx.fail("the resumed loop entry raised " + type(e).__name__, str(e))
                    return
            ctx.prove(len(snaps) == 2, "the resumed run wrote its next checkpoint")
            if len(snaps) != 2:
                return
            st_new = snaps[1]["sampling_time"].total_seconds()
            ctx.prove(len(instants) > n_old, "the new process read the clock")
            wall_new = instants[-1] - instants[n_old]
            ctx.prove(st_new >= s_ckpt, "sampling time is not reset by the resume")
            ctx.prove(st_new <= s_ckpt + wall_new, "sampling time is not double counted across the resume: at most the checkpointed total plus the wall-clock time of the new process")
        finally:
            for m, dt in saved:
                m.datetime = dt
        ctx.cover("end")
    return body


def make_ins_flowmodel_cycles():
    """checkpoint -> resume -> train more flows -> checkpoint -> resume of the real ImportanceFlowModel (torch / glob stubbed)."""
    def body(ctx):
        import nessai.flowmodel.importance as M

        class Flow:
            def __init__(self, tag=None):
                self.loaded = tag
                self.device = None

            def load_state_dict(self, tag):
                self.loaded = tag

        class ModuleList(list):
            def eval(self):
                return self

        files = []
        saved = dict(glob=M.glob, torch=M.torch, configure_model=M.configure_model, update_flow_config=M.update_flow_config)
        M.glob = type("G", (), {"glob": staticmethod(lambda pattern: list(reversed(files)))})
        M.torch = type("T", (), {"nn": type("NN", (), {"ModuleList": ModuleList}), "device": staticmethod(lambda d: d), "load": staticmethod(lambda f: f)})
        M.configure_model = lambda cfg: Flow()
        M.update_flow_config = lambda cfg: cfg

        class IFM(M.ImportanceFlowModel):
            def initialise(self):
                self.initialised = True

            def reset_optimiser(self):
                pass
        try:
            k1 = 1 + ctx.choice("k1", 3)
            k2 = ctx.choice("k2", 3)
            stale = ctx.choice("extra_files", 2)       # weights files of levels beyond the checkpoint left on disk
            ifm = IFM.__new__(IFM)
            ifm.output = "out"
            ifm.flow_config = dict(n_inputs=2)
            ifm.training_config = dict()
            ifm.initialised = True
            ifm._optimiser = None
            ifm.weights_files = []
            ifm.models = ModuleList()
            cur = ifm

            def train(m, k):
                for _ in range(k):
                    i = len(m.models)
                    m.add_new_flow(reset=True)
                    f = os.path.join("out", f"level_{i}", "model.pt")
                    m.models[-1].loaded = f
                    if f not in files:
                        files.append(f)
            train(cur, k1)
            for cycle, more in ((1, k2), (2, 0)):
                n_ckpt = len(cur.models)
                tags = [f.loaded for f in cur.models]
                state = copy.deepcopy(cur.__getstate__())
                if cycle == 2:
                    files.extend(os.path.join("out", f"level_{n_ckpt + j}", "model.pt") for j in range(stale))
                new = IFM.__new__(IFM)
                new.__dict__.update(state)
                ctx.prove(not new.models, "flows themselves are not pickled")
                try:
                    new.resume(dict(n_inputs=2), weights_path="out")
                except Exception as e:
                    ctx.fail(f"flow model resume raised {type(e).__name__} in cycle {cycle}", str(e))
                    return
                ctx.prove(new.n_models == n_ckpt, f"resume {cycle}: as many flows are rebuilt as the checkpointed model held")
                ctx.prove([f.loaded for f in new.models] == tags, f"resume {cycle}: flow i is rebuilt from the weights of level i")
                ctx.prove(new.initialised is True, f"resume {cycle}: the flow model is initialised")
                cur = new
                train(cur, more)
            ctx.cover("end")
        finally:
            for k, v in saved.items():
                setattr(M, k, v)
    return body


def units(tier):
    us = []
    opts = dict()
    n = 2 if tier == "quick" else 3
    for cycles in ((1, 2, 3) if tier == "quick" else (1, 2, 3, 4, 5)):
        us.append(Unit(f"standard[nlive={n},cycles={cycles}]", make_standard(n, cycles), MODS, opts, expect_cover=["end"],
                       mutants=["pool"] if cycles == 1 else [], twin_runs=30, witness_every=7, nproc=1, extra_patches=EXTRA))
    for slq in (False, True):
        for iid in (False, True):
            us.append(Unit(f"ins[save_log_q={slq},iid={iid}]", make_ins(slq, iid), MODS, opts, expect_cover=["end"], twin_runs=5, witness_every=1, nproc=1))
    for which in ("standard", "ins"):
        us.append(Unit(f"resume_clock[{which}]", make_resume_clock(which), MODS + ["nessai.samplers.base", "nessai.samplers.nestedsampler", "nessai.samplers.importancesampler"], opts,
                       expect_cover=["end"], twin_runs=10, witness_every=1, nproc=1))
    us.append(Unit("ins_flowmodel_cycles", make_ins_flowmodel_cycles(), MODS, opts, expect_cover=["end"], twin_runs=10, witness_every=1, nproc=1))
    for mode in ("callback", "file"):
        k = 2 if tier == "quick" else 4
        us.append(Unit(f"checkpoint_clock[{mode},checkpoints={k}]", make_checkpoint_clock(mode, k), MODS + ["nessai.samplers.base"], opts, expect_cover=["end"],
                       twin_runs=20, witness_every=3, nproc=1))
    return us
