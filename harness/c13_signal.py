"""C13 - a termination signal at any instant leaves a consistent, resumable state.

The interruption point is a symbolic index over the *line events* of the real
`consume_sample`, `yield_sample`, `insert_live_point` and
`_NSIntegralState.increment`: before line number k the real handler chain
(FlowSampler.safe_exit -> terminate_run -> BaseNestedSampler.checkpoint ->
__getstate__) runs, the snapshot it pickles is resumed, and one more real
iteration is executed on the resumed object.
"""
import contextlib
import copy
import datetime
import sys

import numpy as np

from sx.logic import AND
from sx.runner import Unit
from harness import c01_liveset as c01

ID = "C13"
FUNCTIONS = [
    "nessai.samplers.nestedsampler.NestedSampler.consume_sample",
    "nessai.samplers.nestedsampler.NestedSampler.yield_sample",
    "nessai.samplers.nestedsampler.NestedSampler.insert_live_point",
    "nessai.evidence._NSIntegralState.increment",
    "nessai.flowsampler.FlowSampler.safe_exit",
    "nessai.flowsampler.FlowSampler.terminate_run",
    "nessai.samplers.base.BaseNestedSampler.checkpoint",
    "nessai.samplers.base.BaseNestedSampler.__getstate__",
    "nessai.samplers.base.BaseNestedSampler.close_pool",
    "nessai.samplers.importancesampler.ImportanceNestedSampler.checkpoint",
]
BOUNDS = {
    "quick": dict(nlive="1..3", candidates="<=2", interruption="before every executed source line of consume_sample / yield_sample / insert_live_point / increment (symbolic index), or none"),
    "thorough": dict(nlive="1..4", candidates="<=3", interruption="before every executed source line of consume_sample / yield_sample / insert_live_point / increment (symbolic index), or none"),
}
SCOPE = "The pre-state, the candidates and the interruption index are symbolic; pickling is modelled as a deep copy of what the real __getstate__ returns."
ASSUMPTIONS = [
    "signal handlers run between Python source lines (CPython delivers signals between bytecodes; line granularity is the stated bound)",
    "pickle round-trips the state dictionary faithfully (deep copy)",
    "the proposal re-attached after resume obeys the same draw contract as in C01",
    "SIGTERM, SIGINT and SIGALRM share one handler (FlowSampler.__init__ registers safe_exit for all three): the signal number is a symbolic choice",
]
OUTSIDE = ["signals during training / population internals (stubs here)", "real signal delivery and real pickling", "interruptions inside C code"]

PARALLEL_UNITS = True
MODS = c01.MODS
TRACED = {"consume_sample", "yield_sample", "insert_live_point", "increment"}


class _ModelStub(c01.StubModel):
    likelihood_evaluations = 11
    likelihood_evaluation_time = datetime.timedelta(seconds=2)

    def close_pool(self, code=None):
        self.closed_with = code


def _conj(conds):
    r = True
    for c in conds:
        r = r & c
    return r


def make_signal(N, K):
    def body(ctx):
        from nessai.flowsampler import FlowSampler
        from nessai.samplers.nestedsampler import NestedSampler
        import nessai.samplers.base as base_mod
        mut = getattr(ctx, "mutant", None)
        dt = c01._dtype()
        ns = c01._sampler(ctx, N)
        ns.model = _ModelStub(ctx)
        Ls = [ctx.real(f"L{i}") for i in range(N)]
        for i in range(N - 1):
            ctx.assume(Ls[i] <= Ls[i + 1])
        live = np.empty(N, dtype=dt)
        for i in range(N):
            live[i] = (ctx.real(f"x{i}"), ctx.real(f"P{i}"), Ls[i], 0, i)
        ns.live_points = live
        prev = ctx.real("prevL")
        ctx.assume(prev <= Ls[0])
        dead0 = np.empty(1, dtype=dt)
        dead0[0] = (ctx.real("xd"), ctx.real("Pd"), prev, 0, 50)
        ns.nested_samples = [dead0[0]]
        ns.insertion_indices = [0]
        lmax = ctx.real("logLmax")
        ctx.assume(lmax >= Ls[N - 1])
        ns.logLmax, ns.logLmin = lmax, prev
        ns.iteration = 1
        ns.state.logLs = [-np.inf, prev]
        ns.state.log_vols = [0.0, -1.0 / N]
        ns.state.logw = -1.0 / N
        ns.state.logZ = ctx.logval("Z0", positive=True)
        ns.state.info = [0.0]
        ns.state.nlive = [N]
        ns.history = dict(checkpoint_iterations=[])
        ns.sampling_time = datetime.timedelta()
        ns.sampling_start_time = datetime.datetime.now()
        ns.checkpoint_callback = None
        ns.resume_file = "resume.pkl"
        # a periodic checkpoint is not due: only a forced one may write
        ns.checkpoint_on_iteration = True
        ns.checkpoint_interval = 1000
        ns._last_checkpoint = 1
        ns.debug_enabled = False
        ns.proposal = c01.StubProposal(ctx, dt, K, tag0=100, specials=False, nonfinite_prior=False, nonzero=True)
        pre_tags = set(range(N)) | {50}

        fsam = FlowSampler.__new__(FlowSampler)
        fsam.ns = ns
        fsam.exit_code = [130, 0, 5][ctx.choice("exit_code", 3)]
        signum = [15, 2, 14][ctx.choice("signal", 3)]
        snap = {}

        def fake_dump(data, filename, module, save_existing=False):
            snap["state"] = copy.deepcopy(data.__getstate__())
            snap["file"] = filename
        old_dump = base_mod.safe_file_dump
        base_mod.safe_file_dump = fake_dump

        k = ctx.int("interrupt_at", -1, 400)
        counter = [0]
        fired = {}

        def tracer(frame, event, arg):
            if frame.f_code.co_name not in TRACED or "nessai" not in frame.f_code.co_filename:
                return None

            def local(frame, event, arg):
                if event == "line" and not fired:
                    i = counter[0]
                    counter[0] += 1
                    if bool(k == i):
                        fired["where"] = f"{frame.f_code.co_name}:+{frame.f_lineno - frame.f_code.co_firstlineno}"
                        fired["line"] = _src(frame)
                        sys.settrace(None)
                        fsam.safe_exit(signum, frame)
                return local
            return local

        exit_code = None
        try:
            sys.settrace(tracer)
            try:
                ns.consume_sample()
            except SystemExit as e:
                exit_code = e.code
            finally:
                sys.settrace(None)
        finally:
            base_mod.safe_file_dump = old_dump
        if not fired:
            ctx.assume((k < 0) | (k >= counter[0]))
            ctx.cover("uninterrupted")
            ctx.prove(len(ns.nested_samples) == 2 and len(ns.insertion_indices) == 2 and ns.iteration == 2, "uninterrupted iteration is complete")
            return
        ctx.cover("interrupted")
        ctx.cover("at:" + fired["where"].split(":")[0])
        where = f"interrupted before {fired['where']}: {fired['line']}"
        at = f" [interrupted before {fired['where'].split(':')[0]}: {fired['line']}]"
        ctx.prove(exit_code == fsam.exit_code, "handler exits with the configured exit code")
        ctx.prove("state" in snap and snap["file"] == "resume.pkl", "the handler wrote a checkpoint")
        if "state" not in snap:
            return
        st = snap["state"]
        ctx.prove("model" not in st and "proposal" not in st and st["_previous_likelihood_evaluations"] == 11,
                  "checkpoint carries the evaluation count and not the model / proposal")
        # ---- resume in a "new process" and run one more iteration -------------------
        new = NestedSampler.__new__(NestedSampler)
        new.__dict__.update(st)
        model2 = _ModelStub(ctx)
        model2.likelihood_evaluations = 0
        model2.likelihood_evaluation_time = datetime.timedelta()
        from nessai.samplers.base import BaseNestedSampler
        BaseNestedSampler.resume_from_pickled_sampler.__func__(NestedSampler, new, model2)
        ctx.prove(model2.likelihood_evaluations == 11, "evaluation count continues from the checkpoint")
        new.check_state = lambda force=False: None
        new.update_state = lambda force=False: None
        new.proposal = c01.StubProposal(ctx, dt, 1, tag0=200, specials=False, nonfinite_prior=False, nonzero=True)
        new.consume_sample()
        # what update_state does at every iteration of the resumed run: the periodic checkpoint check
        new.checkpoint_callback = lambda s: None
        new.sampling_start_time = datetime.datetime.now()
        try:
            new.checkpoint(periodic=True)
        except Exception as e:
            ctx.fail("the resumed run cannot perform its periodic checkpoint check", f"{where}: {type(e).__name__}: {e}")
        dead_tags = [int(p["tag"]) for p in new.nested_samples]
        live_tags = [int(t) for t in new.live_points["tag"]]
        detail = where
        if mut == "lost":
            ctx.prove(len(dead_tags) == 0, "MUTANT")
        ok_once = len(set(dead_tags)) == len(dead_tags)
        if not ok_once:
            ctx.fail("a discarded point is recorded twice after resume" + at, detail)
        lost = [t for t in pre_tags if t not in dead_tags and t not in live_tags]
        if lost:
            ctx.fail("a point of the interrupted run is lost after resume" + at, detail + f" lost={lost}")
        if len(set(live_tags)) != N or len(live_tags) != N:
            ctx.fail("live set does not have its full size of distinct points after resume" + at, detail + f" live={live_tags}")
        if set(live_tags) & set(dead_tags):
            ctx.fail("a point is both live and discarded after resume" + at, detail + f" both={sorted(set(live_tags) & set(dead_tags))}")
        if not (len(new.nested_samples) == len(new.state.logLs) - 1 == new.iteration):
            ctx.fail("counts of samples, evidence-state entries and iterations disagree after resume" + at,
                     detail + f" dead={len(new.nested_samples)} state={len(new.state.logLs) - 1} it={new.iteration}")
        if len(new.insertion_indices) != new.iteration:
            ctx.fail("count of insertion indices disagrees with the iteration after resume" + at, detail + f" idx={len(new.insertion_indices)} it={new.iteration}")
        lp = new.live_points
        ctx.prove(_conj([lp["logL"][i] <= lp["logL"][i + 1] for i in range(N - 1)]), "live set ascending after resume")
        dl = [p["logL"] for p in new.nested_samples]
        ctx.prove(_conj([dl[i] <= dl[i + 1] for i in range(len(dl) - 1)]), "discarded likelihoods non-decreasing after resume")
        ctx.prove(_conj([new.state.logLs[1 + i] == dl[i] for i in range(min(len(dl), len(new.state.logLs) - 1))]),
                  "evidence state integrated exactly the recorded points after resume")
        ctx.cover("end")
    return body


def _src(frame):
    import linecache
    return linecache.getline(frame.f_code.co_filename, frame.f_lineno).strip()


def make_ins_refusal():
    """The importance sampler refuses a mid-iteration checkpoint: the last boundary checkpoint stays intact."""
    def body(ctx):
        from nessai.samplers.importancesampler import ImportanceNestedSampler
        import nessai.samplers.base as base_mod
        ins = ImportanceNestedSampler.__new__(ImportanceNestedSampler)
        ins.history = dict(checkpoint_iterations=[])
        ins.iteration = 3
        ins.sampling_time = datetime.timedelta()
        ins.sampling_start_time = datetime.datetime.now()
        ins.checkpoint_callback = None
        ins.resume_file = "resume.pkl"
        ins.save_existing_checkpoint = False
        ins.checkpoint_on_iteration = True
        ins.checkpoint_interval = 1
        ins._last_checkpoint = 2
        calls = []
        old = base_mod.safe_file_dump
        base_mod.safe_file_dump = lambda *a, **k: calls.append(a)
        try:
            ins.checkpoint()  # what the signal handler calls
            ctx.prove(calls == [], "a forced (signal) checkpoint of the importance sampler writes nothing")
            ctx.prove(ins.history["checkpoint_iterations"] == [], "and records nothing")
            ins.checkpoint(periodic=True)
            ctx.prove(len(calls) == 1, "the periodic iteration-boundary checkpoint still writes")
        finally:
            base_mod.safe_file_dump = old
        ctx.cover("end")
    return body


def units(tier):
    us = []
    opts = dict(exp_axioms="minimal")
    sizes = [(1, 1), (2, 1)] if tier == "quick" else [(1, 2), (2, 1), (2, 2), (3, 1), (3, 2)]
    for (N, K) in sizes:
        us.append(Unit(f"signal[N={N},K={K}]", make_signal(N, K), MODS, opts, expect_cover=["end", "interrupted", "uninterrupted", "at:consume_sample", "at:insert_live_point", "at:increment", "at:yield_sample"],
                       mutants=["lost"] if (N, K) == (2, 1) else [], twin_runs=40, setup=c01.setup, extra_patches=c01.EXTRA, witness_every=25, nproc=None, heavy=True))
    us.append(Unit("ins_refuses_mid_iteration_checkpoint", make_ins_refusal(), [], dict(), expect_cover=["end"], twin_runs=1, nproc=1))
    return us
