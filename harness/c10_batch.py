"""C10 - batched, chunked and pooled evaluation equals pointwise evaluation, once.

The real `batch_evaluate_function`, `array_split_chunksize`, the three
`*_wrapper`s, `Model.batch_evaluate_log_likelihood / log_prior /
log_prior_unit_hypercube`, `evaluate_log_likelihood` and
`check_vectorised_function` are run with a symbolic chunk size, a symbolic pool
size, symbolic points and an uninterpreted user function.
"""
import datetime

import numpy as np

from sx.logic import NOT, OR
from sx.runner import Unit

ID = "C10"
FUNCTIONS = [
    "nessai.utils.multiprocessing.batch_evaluate_function",
    "nessai.utils.multiprocessing.log_likelihood_wrapper",
    "nessai.utils.multiprocessing.log_prior_wrapper",
    "nessai.utils.multiprocessing.log_prior_unit_hypercube_wrapper",
    "nessai.utils.multiprocessing.initialise_pool_variables",
    "nessai.utils.multiprocessing.check_vectorised_function",
    "nessai.utils.structures.array_split_chunksize",
    "nessai.model.Model.batch_evaluate_log_likelihood",
    "nessai.model.Model.batch_evaluate_log_prior",
    "nessai.model.Model.batch_evaluate_log_prior_unit_hypercube",
    "nessai.model.Model.evaluate_log_likelihood",
]
BOUNDS = {
    "quick": dict(batch_n="0..4", chunksize="None or any integer in [1, n+1] (symbolic)", n_pool="any integer in [1,4] (symbolic)", pool=["none", "order-preserving map"], vectorised=[True, False], returns=["scalar", "length-1 array"], vectorisation_check="3 points; vectorised / array-rejecting / wrong-row / pointwise + symbolic delta"),
    "thorough": dict(batch_n="0..8 and 11", chunksize="None or any integer in [1, n+1] (symbolic)", n_pool="any integer in [1,4] (symbolic)", pool=["none", "order-preserving map"], vectorised=[True, False], returns=["scalar", "length-1 array"]),
}
SCOPE = "The user's likelihood / prior is an uninterpreted function of the (symbolic) point, so 'same value, same order' is decided for every function and every point."
ASSUMPTIONS = [
    "Pool.map applies the function to each item and returns the results in input order (contract of multiprocessing.Pool.map and of any user-supplied pool)",
    "a vectorised user function returns one value per row, in row order; a non-vectorised one returns a scalar or a length-1 array",
    "from_unit_hypercube maps each point independently (uninterpreted per-point map)",
    "'exactly the pointwise values' for a function classed as vectorised is read as: batch and pointwise values agree to 1e-14 (absolute + relative), the rounding level of a double; numpy's vectorised kernels may round differently from scalar code, so exact equality cannot be demanded of user functions",
]
OUTSIDE = ["real fork pools and their scheduling", "batches larger than the bound", "user functions that are not pure functions of the point"]

PARALLEL_UNITS = True
MODS = ["nessai.utils.multiprocessing", "nessai.utils.structures", "nessai.model"]


class FakePool:
    def __init__(self):
        self.map_calls = 0
        self.items = 0

    def map(self, func, iterable):
        self.map_calls += 1
        out = []
        for it in iterable:
            self.items += 1
            out.append(func(it))
        return out


def _dtype(ctx):
    f = "O" if ctx.mode == "sym" else "f8"
    return np.dtype([("x", f), ("y", f), ("logP", f), ("logL", f), ("it", "i4")])


def _points(ctx, n):
    a = np.empty(n, dtype=_dtype(ctx))
    for i in range(n):
        a[i] = (ctx.real(f"x{i}"), ctx.real(f"y{i}"), 0.0, 0.0, 0)
    return a


def _model(ctx, vectorised, ret, pool, n_pool, chunksize, unit=False):
    from nessai.model import Model

    class M(Model):
        names = ["x", "y"]
        bounds = {"x": [-5, 5], "y": [-5, 5]}

        def __init__(self):
            pass

        def _f(self, name, rec):
            return ctx.uf(name, rec["x"], rec["y"])

        def _eval(self, name, x):
            if isinstance(x, np.ndarray) and x.ndim == 1:
                if not vectorised:
                    raise TypeError("not vectorised")
                self.points_evaluated[name] += len(x)
                out = np.empty(len(x), dtype=object if ctx.mode == "sym" else float)
                for i in range(len(x)):
                    out[i] = self._f(name, x[i])
                return out
            self.points_evaluated[name] += 1
            v = self._f(name, x)
            if ret == "array":
                out = np.empty(1, dtype=object if ctx.mode == "sym" else float)
                out[0] = v
                return out
            return v

        def log_likelihood(self, x):
            return self._eval("LL", x)

        def log_prior(self, x):
            return self._eval("LP", x)

        def log_prior_unit_hypercube(self, x):
            return self._eval("LPU", x)

        def from_unit_hypercube(self, x):
            self.unit_calls += 1
            out = x.copy()
            for i in range(len(x)):
                out["x"][i] = ctx.uf("gx", x["x"][i])
                out["y"][i] = ctx.uf("gy", x["y"][i])
            return out

    m = M()
    import collections
    m.points_evaluated = collections.Counter()
    m.unit_calls = 0
    m.allow_vectorised = True
    m.allow_vectorised_prior = True
    m._vectorised_likelihood = vectorised
    m._vectorised_prior = vectorised
    m._vectorised_prior_unit_hypercube = vectorised
    m.likelihood_chunksize = chunksize
    m.pool = pool
    m.n_pool = n_pool
    m.parallelise_prior = pool is not None
    m.likelihood_evaluations = 7
    m.likelihood_evaluation_time = datetime.timedelta()
    return m


def make_batch(n, which, vectorised, ret, use_pool, chunked, unit=False):
    def body(ctx):
        from nessai.utils.multiprocessing import initialise_pool_variables
        mut = getattr(ctx, "mutant", None)
        x = _points(ctx, n)
        chunksize = None
        if chunked:
            chunksize = ctx.int("chunksize", 1, n + 1)
        n_pool = None
        pool = None
        if use_pool:
            pool = FakePool()
            n_pool = ctx.int("n_pool", 1, 4)
        m = _model(ctx, vectorised, ret, pool, n_pool, chunksize, unit)
        if use_pool:
            initialise_pool_variables(m)
        if ctx.mode == "sym":
            from sx.symnp import symrandom
            symrandom.reset()
        if which == "LL":
            out = m.batch_evaluate_log_likelihood(x, unit_hypercube=unit)
        elif which == "LP":
            out = m.batch_evaluate_log_prior(x, unit_hypercube=unit)
        else:
            out = m.batch_evaluate_log_prior_unit_hypercube(x)
        ctx.prove(len(out) == n and np.ndim(out) == 1, "one value per point")
        for i in range(min(n, len(out))):
            j = i if mut != "order" or n < 2 else (n - 1 - i)
            px, py = x["x"][j], x["y"][j]
            if unit:
                px, py = ctx.uf("gx", px), ctx.uf("gy", py)
            ctx.prove_eq(out[i], ctx.uf(which, px, py), "value i = user function at point i (mapped point in unit-hypercube mode), input order")
        ctx.prove(m.points_evaluated[which] == n + (1 if mut == "count" else 0), "user function evaluated on exactly n points in total (each once)")
        if which == "LL":
            ctx.prove(m.likelihood_evaluations == 7 + n, "likelihood-evaluation counter increased by exactly n, once")
        else:
            ctx.prove(m.likelihood_evaluations == 7, "prior evaluation does not touch the likelihood counter")
        if unit:
            ctx.prove(m.unit_calls >= 1, "points are mapped from the unit hypercube before evaluation")
        if ctx.mode == "sym":
            from sx.symnp import symrandom
            ctx.prove(len(symrandom.calls) == 0, "no use of the random generator on the evaluation path")
        ctx.cover("end")
    return body


def make_single(ret):
    def body(ctx):
        x = _points(ctx, 1)
        m = _model(ctx, False, ret, None, None, None)
        v = m.evaluate_log_likelihood(x[0])
        if ret == "array":
            v = v[0]
        ctx.prove_eq(v, ctx.uf("LL", x["x"][0], x["y"][0]), "single evaluation returns the user function's value")
        ctx.prove(m.likelihood_evaluations == 8, "single evaluation counts one")
        ctx.cover("end")
    return body


def make_check_vectorised(kind):
    """check_vectorised_function must accept a truly vectorised function and reject the others."""
    def body(ctx):
        from nessai.utils.multiprocessing import check_vectorised_function
        x = _points(ctx, 3)

        def vec(z):
            if isinstance(z, np.ndarray) and z.ndim == 1:
                out = np.empty(len(z), dtype=object if ctx.mode == "sym" else float)
                for i in range(len(z)):
                    out[i] = ctx.uf("LL", z["x"][i], z["y"][i])
                return out
            return ctx.uf("LL", z["x"], z["y"])

        def novec(z):
            if isinstance(z, np.ndarray) and z.ndim == 1:
                raise TypeError("only single points")
            return ctx.uf("LL", z["x"], z["y"])

        def wrong(z):
            # "works" on arrays but returns the first point's value for every row
            if isinstance(z, np.ndarray) and z.ndim == 1:
                out = np.empty(len(z), dtype=object if ctx.mode == "sym" else float)
                for i in range(len(z)):
                    out[i] = ctx.uf("LL", z["x"][0], z["y"][0])
                return out
            return ctx.uf("LL", z["x"], z["y"])
        deltas = [ctx.real(f"delta{i}", -1, 1) for i in range(3)]

        def base(zx, zy):
            # an explicit function of the point (not an uninterpreted one): the counterexample's inputs then determine every value in the replay
            return zx + 2 * zy

        def approx(z):
            # a batch path that agrees with the pointwise path only approximately (e.g. a float32 / GPU kernel)
            if isinstance(z, np.ndarray) and z.ndim == 1:
                out = np.empty(len(z), dtype=object if ctx.mode == "sym" else float)
                for i in range(len(z)):
                    out[i] = base(z["x"][i], z["y"][i]) + deltas[i]
                return out
            return base(z["x"], z["y"])
        f = dict(vec=vec, novec=novec, wrong=wrong, approx=approx)[kind]
        r = check_vectorised_function(f, x, dtype="O" if ctx.mode == "sym" else "f8")
        if kind == "vec":
            ctx.prove(r is True, "a vectorised function is detected as vectorised")
        elif kind == "novec":
            ctx.prove(r is False, "a function that rejects arrays is not treated as vectorised")
        elif kind == "approx":
            # "exactly the values obtained by evaluating each point on its own": a function may only be classed as vectorised
            # when its batch values agree with the pointwise ones at the rounding level of a double (here: 1e-14 absolute + relative,
            # ten times the shipped tolerance); anything looser makes the batch interface return different values
            close = True
            for i in range(3):
                li = base(x["x"][i], x["y"][i])
                close = close & (abs(deltas[i]) <= 1e-14 * (1 + abs(li)))
            ctx.prove(OR(r is False, close), "a function is classed as vectorised only if batch and pointwise values agree at the rounding level of a double")
            exact = (deltas[0] == 0) & (deltas[1] == 0) & (deltas[2] == 0)
            ctx.prove(OR(r is True, NOT(exact)), "a function whose batch values equal the pointwise ones is classed as vectorised")
        else:
            # if the batch result differs from the pointwise one by more than the tolerance anywhere, it must be rejected
            l0 = ctx.uf("LL", x["x"][0], x["y"][0])
            far = False
            for i in (1, 2):
                li = ctx.uf("LL", x["x"][i], x["y"][i])
                d = li - l0
                far = far | (abs(d) > 1e-3 * (1 + abs(li)))
            ctx.prove(OR(r is False, NOT(far)),
                      "a function whose batch values differ from the pointwise ones is not treated as vectorised")
        ctx.cover("end")
    return body


def units(tier):
    us = []
    ns = [0, 1, 2, 3, 4] if tier == "quick" else [0, 1, 2, 3, 4, 5, 6, 8, 11]
    opts = dict()
    first = True
    for n in ns:
        for which in ("LL", "LP", "LPU"):
            for vectorised in (True, False):
                for ret in (("scalar", "array") if not vectorised else ("scalar",)):
                    for use_pool in (False, True):
                        for chunked in ((False, True) if (which == "LL" and vectorised) else (False,)):
                            if tier == "quick" and which != "LL" and n not in (0, 3):
                                continue
                            mut = ["order", "count"] if (n == 3 and which == "LL" and vectorised and use_pool and chunked) else []
                            us.append(Unit(f"batch[n={n},{which},vec={vectorised},{ret},pool={use_pool},chunked={chunked}]",
                                           make_batch(n, which, vectorised, ret, use_pool, chunked), MODS, opts, expect_cover=["end"],
                                           mutants=mut, twin_runs=4, witness_every=3, nproc=1, object_lp=True))
        for use_pool in (False, True):
            if n in (0, 2, 3):
                us.append(Unit(f"batch_unit[n={n},pool={use_pool}]", make_batch(n, "LL", True, "scalar", use_pool, True, unit=True), MODS, opts,
                               expect_cover=["end"], twin_runs=4, witness_every=3, nproc=1, object_lp=True))
                us.append(Unit(f"batch_unit_prior[n={n},pool={use_pool}]", make_batch(n, "LP", False, "scalar", use_pool, False, unit=True), MODS, opts,
                               expect_cover=["end"], twin_runs=4, witness_every=3, nproc=1, object_lp=True))
    for ret in ("scalar", "array"):
        us.append(Unit(f"single[{ret}]", make_single(ret), MODS, opts, expect_cover=["end"], twin_runs=3, witness_every=1, nproc=1, object_lp=True))
    for kind in ("vec", "novec", "wrong", "approx"):
        us.append(Unit(f"check_vectorised[{kind}]", make_check_vectorised(kind), MODS, opts, expect_cover=["end"], twin_runs=10, witness_every=1, nproc=1, object_lp=True))
    return us
