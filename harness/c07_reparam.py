"""C07 - reparameterisations are exact bijections with consistent Jacobians and priors.

The real reparameterisation classes are constructed and executed on symbolic
prior bounds and symbolic points carrying a unit tangent (dual numbers), so the
derivative of the *implemented* map is available next to the log-Jacobian the
code *reports*.  Affine / rational maps are decided in real arithmetic,
log/logit/exp through the log-semiring, angles relative to ground instances of
the listed trigonometric axioms.
"""
import math

import numpy as np

from sx import symnp as _symnp
from sx.logic import AND, NOT, OR
from sx.runner import Unit

ID = "C07"
FUNCTIONS = [
    "nessai.utils.rescaling.rescale_zero_to_one",
    "nessai.utils.rescaling.inverse_rescale_zero_to_one",
    "nessai.utils.rescaling.rescale_minus_one_to_one",
    "nessai.utils.rescaling.inverse_rescale_minus_one_to_one",
    "nessai.utils.rescaling.logit",
    "nessai.utils.rescaling.sigmoid",
    "nessai.utils.rescaling.log_with_log_jacobian",
    "nessai.utils.rescaling.exp_with_log_jacobian",
    "nessai.utils.rescaling.determine_rescaled_bounds",
    "nessai.utils.rescaling.detect_edge",
    "nessai.reparameterisations.base.Reparameterisation.__init__",
    "nessai.reparameterisations.rescale.RescaleToBounds.__init__",
    "nessai.reparameterisations.rescale.RescaleToBounds.reparameterise",
    "nessai.reparameterisations.rescale.RescaleToBounds.inverse_reparameterise",
    "nessai.reparameterisations.rescale.RescaleToBounds._apply_inversion",
    "nessai.reparameterisations.rescale.RescaleToBounds._reverse_inversion",
    "nessai.reparameterisations.rescale.RescaleToBounds.set_bounds",
    "nessai.reparameterisations.rescale.RescaleToBounds.update_bounds",
    "nessai.reparameterisations.rescale.RescaleToBounds.update_prime_prior_bounds",
    "nessai.reparameterisations.rescale.RescaleToBounds.x_prime_log_prior",
    "nessai.reparameterisations.rescale.ScaleAndShift.reparameterise",
    "nessai.reparameterisations.rescale.ScaleAndShift.inverse_reparameterise",
    "nessai.reparameterisations.null.NullReparameterisation.reparameterise",
    "nessai.reparameterisations.null.NullReparameterisation.inverse_reparameterise",
    "nessai.reparameterisations.angle.Angle.reparameterise",
    "nessai.reparameterisations.angle.Angle.inverse_reparameterise",
    "nessai.reparameterisations.angle.ToCartesian._rescale_angle",
    "nessai.reparameterisations.angle.ToCartesian._inverse_rescale_angle",
    "nessai.reparameterisations.angle.AnglePair.reparameterise",
    "nessai.reparameterisations.angle.AnglePair.inverse_reparameterise",
    "nessai.reparameterisations.combined.CombinedReparameterisation.reparameterise",
    "nessai.reparameterisations.combined.CombinedReparameterisation.inverse_reparameterise",
    "nessai.reparameterisations.get_reparameterisation",
    "nessai.priors.log_uniform_prior",
    "nessai.priors.log_2d_cartesian_prior",
    "nessai.gw.reparameterisations.DeltaPhaseReparameterisation.reparameterise",
    "nessai.gw.reparameterisations.DeltaPhaseReparameterisation.inverse_reparameterise",
    "nessai.gw.reparameterisations.DistanceReparameterisation.__init__",
    "nessai.gw.utils.PowerLawConverter.to_uniform_parameter",
    "nessai.gw.utils.PowerLawConverter.from_uniform_parameter",
    "nessai.gw.reparameterisations.get_gw_reparameterisation",
]
BOUNDS = {
    "quick": dict(points_per_batch="2 independent symbolic points (angle maps: 1 point, with the Jacobian ratio compared to its closed-form constant)", parameters_per_reparameterisation="<=3", prior_bounds="symbolic lo<hi (angles: the documented fixed ranges)", configurations="see unit list"),
    "thorough": dict(points_per_batch="2..3", parameters_per_reparameterisation="<=3", prior_bounds="symbolic lo<hi (angles: the documented fixed ranges)", configurations="see unit list"),
}
SCOPE = ("R1 inverse(forward(x)) = x; R2 the two reported log-Jacobians sum to zero; R3 dual-number derivative of the implemented map times exp(-reported log-Jacobian) "
         "is the same at two independent points (reported log-Jacobian = log|det J| + constant); R4 prime prior support / prior-Jacobian consistency where a prime prior exists.")
ASSUMPTIONS = [
    "exact real arithmetic; exp/log through their algebraic laws (C02)",
    "trigonometric axioms, instantiated on the terms that occur: sin^2+cos^2=1; sin(-t) = -sin(t), cos(-t) = cos(t); exp is monotone on whole exponents (t=0 => exp(t)=1, t>0 => exp(t)>1); sin > 0 on (0, pi) and cos > 0 on (-pi/2, pi/2) for the zenith / declination angle; arctan2(y,x)=phi => -pi<phi<=pi, rho cos phi = x, rho sin phi = y with rho>=0, rho^2=x^2+y^2; (cos a, sin a) = (cos b, sin b) => a-b in 2 pi Z; the double nearest to pi is treated as pi",
    "sqrt(u) is the non-negative root",
    "the random choice of which points are reflected (inversion 'split', ToCartesian 'split') is arbitrary (forked)",
]
OUTSIDE = ["non-integer powers of the GW power-law distance converter; DistanceReparameterisation without boundary_inversion (the constructor raises AttributeError)", "the comoving-distance converter of the GW reparameterisations (astropy, spline tables)", "detect_edge's histogram heuristic (its result is a symbolic choice through the code's own test= hook)",
           "rounding near the bounds (the eps clip of logit is a branch, not measured)", "combinations of more than two reparameterisations"]

PARALLEL_UNITS = True
MODS = ["nessai.utils.rescaling", "nessai.reparameterisations.base", "nessai.reparameterisations.rescale", "nessai.reparameterisations.null",
        "nessai.reparameterisations.angle", "nessai.reparameterisations.combined", "nessai.priors"]


def _snp(ctx):
    return _symnp.symnp if ctx.mode == "sym" else np


def _struct(ctx, names, n):
    f = "O" if ctx.mode == "sym" else "f8"
    a = np.zeros(n, dtype=[(nm, f) for nm in names])
    return a


def _zeros(ctx, n):
    if ctx.mode == "sym":
        from sx.values import Sym, ZERO
        a = np.empty(n, dtype=object)
        a[...] = Sym(ZERO)
        return a
    return np.zeros(n)


def _with_tangent(ctx, v, t):
    if ctx.mode != "sym":
        return v
    from sx.values import Sym
    return Sym(v.p, v.num, v.den, t, v.is_int)


def _tangent(v):
    d = getattr(v, "d", None)
    return 0 if d is None else d


def _strip(ctx, arr):
    if ctx.mode != "sym":
        return arr.copy()
    out = arr.copy()
    for nm in arr.dtype.names:
        col = out[nm]
        for i in range(len(col)):
            if hasattr(col[i], "nod"):
                col[i] = col[i].nod()
    return out


def _plain(v):
    return v.nod() if hasattr(v, "nod") else v


# ---------------------------------------------------------------------------
# one-dimensional maps: RescaleToBounds family, ScaleAndShift, Null
# ---------------------------------------------------------------------------

RTB_CONFIGS = {
    "default": dict(kw=dict(), update=False),
    "unit_bounds": dict(kw=dict(rescale_bounds=[0, 1]), update=False),
    "custom_bounds": dict(kw=dict(rescale_bounds=[-2, 3]), update=False),
    "offset": dict(kw=dict(offset=True), update=False),
    "updated": dict(kw=dict(update_bounds=True), update=True),
    "offset_updated": dict(kw=dict(offset=True, update_bounds=True), update=True),
    "uniform_prior": dict(kw=dict(prior="uniform"), update=False, prior=True),
    "uniform_prior_updated": dict(kw=dict(prior="uniform", update_bounds=True), update=True, prior=True),
    "pre_log": dict(kw=dict(pre_rescaling="log", update_bounds=False), update=False, positive=True),
    "post_logit": dict(kw=dict(post_rescaling="logit", update_bounds=False), update=False),
    "post_log": dict(kw=dict(post_rescaling="log", update_bounds=False), update=False),
    "pre_log_post_logit": dict(kw=dict(pre_rescaling="log", post_rescaling="logit", update_bounds=False), update=False, positive=True),
    # option combinations for which the code decides itself whether a prime prior is offered: R4 is checked whenever it is
    "pre_log_uniform_prior": dict(kw=dict(pre_rescaling="log", prior="uniform", update_bounds=False), update=False, positive=True, prior="if_offered"),
    "post_logit_uniform_prior": dict(kw=dict(post_rescaling="logit", prior="uniform", update_bounds=False), update=False, prior="if_offered"),
    "post_log_uniform_prior": dict(kw=dict(post_rescaling="log", prior="uniform", update_bounds=False), update=False, prior="if_offered"),
    "inversion_split_lower": dict(kw=dict(boundary_inversion=True, inversion_type="split", update_bounds=False), update=False, test="lower"),
    "inversion_split_upper": dict(kw=dict(boundary_inversion=True, inversion_type="split", update_bounds=False), update=False, test="upper"),
    "inversion_split_none": dict(kw=dict(boundary_inversion=True, inversion_type="split", update_bounds=False), update=False, test=False),
    "inversion_duplicate_lower": dict(kw=dict(boundary_inversion=True, inversion_type="duplicate", update_bounds=False), update=False, test="lower"),
    "inversion_duplicate_upper": dict(kw=dict(boundary_inversion=True, inversion_type="duplicate", update_bounds=False), update=False, test="upper"),
    "inversion_prior_lower": dict(kw=dict(boundary_inversion=True, inversion_type="split", update_bounds=False, prior="uniform"), update=False, test="lower", prior=True),
    "inversion_prior_none": dict(kw=dict(boundary_inversion=True, inversion_type="split", update_bounds=False, prior="uniform"), update=False, test=False, prior=True),
}


def _check_1d(ctx, rp, names, X, fwd_kwargs, has_prior, box, mut=None, at_bounds=False, log_prior=None):
    """X: dict name -> list of symbolic points. Runs forward with a unit tangent on each parameter in turn."""
    snp = _snp(ctx)
    n = len(next(iter(X.values())))
    prime = list(rp.prime_parameters)
    results = {}
    for j, pj in enumerate(names):
        x = _struct(ctx, names, n)
        for nm in names:
            for i in range(n):
                x[nm][i] = _with_tangent(ctx, X[nm][i], 1 if nm == pj else 0)
        xp = _struct(ctx, prime, n)
        x_out, xp_out, lj = rp.reparameterise(x, xp, _zeros(ctx, n), **fwd_kwargs)
        results[pj] = (x_out, xp_out, lj)
    x_out, xp_out, lj = results[names[0]]
    m = len(xp_out)  # may be 2n with duplication
    # inverse
    xin = _struct(ctx, names, m)
    x_back, _, lj_inv = rp.inverse_reparameterise(xin, _strip(ctx, xp_out), _zeros(ctx, m))
    for k in range(m):
        i = k % n
        for nm in names:
            want = X[nm][i]
            if mut == "r1" and k == 0:
                want = want + 1
            ctx.prove_eq(_plain(x_back[nm][k]), want, "R1 inverse(forward(x)) = x")
        ctx.prove_eq(_plain(lj[k]) + _plain(lj_inv[k]), 0.0 if mut != "r2" else 1.0, "R2 forward and inverse log-Jacobians are negatives of each other")
    ctx.prove(not ctx.domain_hits, "no log of a non-positive number / division by zero inside the open box")
    # R3: Jacobian determinant from the dual numbers (diagonal maps here: product of the diagonal)
    if ctx.mode == "sym":
        cs = []
        for k in range(m):
            det = 1
            for pj, ppj in zip(names, prime):
                _, xpj, _ = results[pj]
                det = det * _tangent(xpj[ppj][k])
            absdet = det if bool(det > 0) else -det
            c = absdet * snp.exp(-_plain(lj[k]))
            cs.append(c)
        for k in range(1, m):
            ctx.prove_eq(cs[k], cs[0] if mut != "r3" else cs[0] + 1, "R3 |dx'/dx| * exp(-reported log-Jacobian) is the same at every point (log|det J| up to a constant)")
    if has_prior:
        lp = rp.x_prime_log_prior(_strip(ctx, xp_out))
        for k in range(m):
            ctx.prove_eq(lp[k] if np.ndim(lp) else lp, 0.0, "R4 points of the prior box are inside the support of the prime prior (uniform: log-density 0)")
        for k in range(1, m):
            if log_prior is None:
                ctx.prove_eq(_plain(lj[k]), _plain(lj[0]), "R4 uniform prime prior: the Jacobian is constant, so prime prior = prior / Jacobian up to a constant")
            else:
                ctx.prove_eq(_plain(lj[k]) - log_prior(k % n), _plain(lj[0]) - log_prior(0),
                             "R4 uniform prime prior = original (non-uniform) prior / Jacobian up to a constant")
    return results


def make_rtb(cfg_name, nparams=1, npts=2):
    cfg = RTB_CONFIGS[cfg_name]

    def body(ctx):
        from nessai.reparameterisations.rescale import RescaleToBounds
        mut = getattr(ctx, "mutant", None)
        names = ["x", "y"][:nparams]
        box = {}
        snp = _snp(ctx)
        for nm in names:
            lo = ctx.real(f"lo_{nm}", -5, 5)
            hi = ctx.real(f"hi_{nm}", -5, 5)
            ctx.assume(lo < hi)
            if cfg.get("positive"):
                # log pre-rescaling: the logarithms are the primitive symbols (x = exp(u)), so log(x) is a plain value
                lo, hi = snp.exp(lo), snp.exp(hi)
            box[nm] = (lo, hi)
        rp = RescaleToBounds(parameters=list(names), prior_bounds={nm: [box[nm][0], box[nm][1]] for nm in names}, **dict(cfg["kw"]))
        if cfg["update"]:
            xt = _struct(ctx, names, 2)
            for nm in names:
                a = ctx.real(f"ta_{nm}", -5, 5)
                b = ctx.real(f"tb_{nm}", -5, 5)
                ctx.assume((box[nm][0] <= a) & (a < b) & (b <= box[nm][1]))
                xt[nm][0], xt[nm][1] = a, b
            rp.update(xt)
        X = {}
        for nm in names:
            X[nm] = []
            for i in range(npts):
                v = ctx.real(f"{nm}{i}", -5, 5)
                if cfg.get("positive"):
                    v = snp.exp(v)
                ctx.assume((box[nm][0] < v) & (v < box[nm][1]))
                X[nm].append(v)
        kw = {}
        if "test" in cfg:
            kw["test"] = cfg["test"]
        has_prior = cfg.get("prior", False)
        if has_prior == "if_offered":
            has_prior = bool(rp.has_prime_prior)
            ctx.cover("prime prior offered" if has_prior else "no prime prior offered")
        _check_1d(ctx, rp, names, X, kw, has_prior, box, mut)
        ctx.cover("end")
    return body


def make_scale_shift(variant):
    def body(ctx):
        from nessai.reparameterisations.rescale import ScaleAndShift
        names = ["x"]
        s = ctx.real("scale", -5, 5)
        ctx.assume(s != 0)
        sh = ctx.real("shift", -5, 5)
        if variant == "fixed":
            rp = ScaleAndShift(parameters=["x"], scale=1.0, shift=1.0)
            rp.scale, rp.shift = {"x": s}, {"x": sh}
        elif variant == "noshift":
            rp = ScaleAndShift(parameters=["x"], scale=1.0)
            rp.scale = {"x": s}
        else:
            rp = ScaleAndShift(parameters=["x"], estimate_scale=True, estimate_shift=True)
            # post-update state: arbitrary positive scale (a standard deviation), arbitrary shift (a mean)
            ctx.assume(s > 0)
            rp.scale, rp.shift = {"x": s}, {"x": sh}
        X = {"x": [ctx.real("x0", -5, 5), ctx.real("x1", -5, 5)]}
        _check_1d(ctx, rp, names, X, {}, False, None)
        ctx.cover("end")
    return body


def make_null():
    def body(ctx):
        from nessai.reparameterisations.null import NullReparameterisation
        rp = NullReparameterisation(parameters=["x", "y"])
        X = {"x": [ctx.real("x0"), ctx.real("x1")], "y": [ctx.real("y0"), ctx.real("y1")]}
        n = 2
        x = _struct(ctx, ["x", "y"], n)
        for nm in X:
            for i in range(n):
                x[nm][i] = X[nm][i]
        xp = _struct(ctx, ["x", "y"], n)
        x, xp, lj = rp.reparameterise(x, xp, _zeros(ctx, n))
        for i in range(n):
            ctx.prove_eq(xp["x"][i], X["x"][i], "null map is the identity")
            ctx.prove_eq(xp["y"][i], X["y"][i], "null map is the identity")
            ctx.prove_eq(lj[i], 0.0, "null map has zero log-Jacobian")
        xb = _struct(ctx, ["x", "y"], n)
        xb, _, lj2 = rp.inverse_reparameterise(xb, xp, _zeros(ctx, n))
        for i in range(n):
            ctx.prove_eq(xb["x"][i], X["x"][i], "R1 inverse(forward(x)) = x")
            ctx.prove_eq(lj2[i], 0.0, "null inverse has zero log-Jacobian")
        ctx.cover("end")
    return body


def make_registry():
    """Every general registered name resolves to a class whose instances pass the 1-D checks with their default options."""
    def body(ctx):
        from nessai.reparameterisations import get_reparameterisation, default_reparameterisations
        names_1d = [k for k in default_reparameterisations if k in ("default", "rescaletobounds", "rescale-to-bounds", "offset", "inversion", "inversion-duplicate",
                                                                    "logit", "log-rescale", "scale", "rescale", "zero", "none", "null", None, "scaleandshift")]
        ctx.prove(len(names_1d) >= 8, "the general registry contains the documented one-dimensional names")
        k = names_1d[ctx.choice("registry_name", len(names_1d))]
        cls, kwargs = get_reparameterisation(k)
        kwargs = dict(kwargs or {})
        lo, hi = ctx.real("lo", -5, 5), ctx.real("hi", -5, 5)
        ctx.assume(lo < hi)
        if "log" in str(k):
            ctx.assume(lo > 0)
        needs_scale = cls.__name__ in ("ScaleAndShift", "Rescale")
        if needs_scale:
            kwargs.setdefault("scale", 2.0)
        try:
            rp = cls(parameters=["x"], prior_bounds={"x": [lo, hi]}, **kwargs)
        except TypeError:
            rp = cls(parameters=["x"], **kwargs)
        X = {"x": []}
        for i in range(2):
            v = ctx.real(f"x{i}", -5, 5)
            ctx.assume((lo < v) & (v < hi))
            X["x"].append(v)
        kw = {}
        if getattr(rp, "boundary_inversion", False):
            kw["test"] = ["lower", "upper", False][ctx.choice("edge", 3)]
        if cls.__name__ == "NullReparameterisation":
            ctx.cover("end")
            return
        _check_1d(ctx, rp, ["x"], X, kw, False, None)
        ctx.cover("end")
    return body


# ---------------------------------------------------------------------------
# multi-dimensional maps: angles
# ---------------------------------------------------------------------------

class _Chi:
    """Stands for scipy's chi distribution used for the auxiliary radius: positive draws."""

    def __init__(self, ctx):
        self.ctx = ctx
        self.drawn = []

    def rvs(self, size=1):
        f = object if self.ctx.mode == "sym" else float
        out = np.empty(size, dtype=f)
        for i in range(size):
            if len(self.drawn) > i:
                out[i] = self.drawn[i]
            else:
                r = self.ctx.real(self.ctx.fresh("radius"), 0, 4)
                self.ctx.assume(r > 0)
                self.drawn.append(r)
                out[i] = r
        return out

    def logpdf(self, x):
        return x * 0.0


def _det(M):
    n = len(M)
    if n == 1:
        return M[0][0]
    if n == 2:
        return M[0][0] * M[1][1] - M[0][1] * M[1][0]
    return (M[0][0] * (M[1][1] * M[2][2] - M[1][2] * M[2][1]) - M[0][1] * (M[1][0] * M[2][2] - M[1][2] * M[2][0])
            + M[0][2] * (M[1][0] * M[2][1] - M[1][1] * M[2][0]))


def _check_nd(ctx, rp, in_names, X, fwd_kwargs, compare, mut=None, n_out=None, ratio=None):
    """General check with the full Jacobian matrix from dual numbers.
    in_names: the input coordinates that are varied (those given in X); compare: names whose round trip is asserted."""
    snp = _snp(ctx)
    n = len(next(iter(X.values())))
    all_in = list(rp.parameters)
    prime = list(rp.prime_parameters)
    runs = {}
    for pj in in_names:
        x = _struct(ctx, all_in, n)
        for nm in in_names:
            for i in range(n):
                x[nm][i] = _with_tangent(ctx, X[nm][i], 1 if nm == pj else 0)
        xp = _struct(ctx, prime, n)
        runs[pj] = rp.reparameterise(x, xp, _zeros(ctx, n), **fwd_kwargs)
    x_out, xp_out, lj = runs[in_names[0]]
    m = len(xp_out)
    xin = _struct(ctx, all_in, m)
    x_back, _, lj_inv = rp.inverse_reparameterise(xin, _strip(ctx, xp_out), _zeros(ctx, m))
    for k in range(m):
        i = k % n
        for nm in compare:
            ctx.prove_eq(_plain(x_back[nm][k]), X[nm][i] if mut != "r1" else X[nm][i] + 1, "R1 inverse(forward(x)) = x")
        ctx.prove_eq(_plain(lj[k]) + _plain(lj_inv[k]), 0.0, "R2 forward and inverse log-Jacobians are negatives of each other")
    if ctx.mode == "sym" and len(in_names) == len(prime):
        cs = []
        for k in range(m):
            M = [[_tangent(runs[pj][1][pp][k]) for pj in in_names] for pp in prime]
            det = _det(M)
            absdet = det if bool(det > 0) else -det
            cs.append(absdet * snp.exp(-_plain(lj[k])))
        for k in range(1, m):
            ctx.prove_eq(cs[k], cs[0] if mut != "r3" else cs[0] + 1, "R3 |det dx'/dx| * exp(-reported log-Jacobian) is the same at every point")
        if ratio is not None:
            for k in range(m):
                ctx.prove_eq(cs[k], ratio if mut != "r3" else ratio + 1, "R3 |det dx'/dx| = (point-independent constant) * exp(reported log-Jacobian)")
    return runs, x_back


def _pi(ctx):
    """pi for the harness: the symbolic constant in symbolic mode (the shim's np.pi returns the same)."""
    if ctx.mode == "sym":
        ctx.aux["_symbolic_pi"] = True
        return _symnp.symnp.pi
    return math.pi


def make_angle(variant):
    def body(ctx):
        from nessai.reparameterisations.angle import Angle
        mut = getattr(ctx, "mutant", None)
        pi = _pi(ctx)
        if variant == "zero_2pi":
            bounds, scale, lo, hi = [0.0, 2 * pi], 1.0, 0.0, 2 * pi
        elif variant == "sym_pi":
            bounds, scale, lo, hi = [-pi, pi], 1.0, -pi, pi
        else:  # scale None on [0, pi] -> scale 2
            bounds, scale, lo, hi = [0.0, pi], None, 0.0, pi
        rp = Angle(parameters=["a", "r"], prior_bounds={"a": bounds, "r": [0.0, 5.0]}, scale=scale)
        X = {"a": [], "r": []}
        for i in range(1):
            a = ctx.real(f"a{i}", -7, 7)
            ctx.assume((a > lo) & (a < hi))   # the identified end point is excluded
            r = ctx.real(f"r{i}", 0, 5)
            ctx.assume(r > 0)
            X["a"].append(a)
            X["r"].append(r)
        _check_nd(ctx, rp, ["a", "r"], X, {}, ["a", "r"], mut, ratio=rp.scale)
        ctx.cover("end")
    return body


def make_angle_aux_radius():
    def body(ctx):
        from nessai.reparameterisations.angle import Angle
        pi = _pi(ctx)
        rp = Angle(parameters=["a"], prior_bounds={"a": [0.0, 2 * pi]})
        rp.chi = _Chi(ctx)
        X = {"a": []}
        for i in range(1):
            a = ctx.real(f"a{i}", 0, 7)
            ctx.assume((a > 0) & (a < 2 * pi))
            X["a"].append(a)
        _check_nd(ctx, rp, ["a"], X, {}, ["a"])
        ctx.cover("end")
    return body


def make_angle_prior(kind):
    """Angle with a prime prior: prime prior = original prior / Jacobian (here exactly, constant 0)."""
    def body(ctx):
        from nessai.reparameterisations.angle import Angle
        snp = _snp(ctx)
        pi = _pi(ctx)
        if kind == "sine":
            rp = Angle(parameters=["a"], prior_bounds={"a": [0.0, pi]}, scale=1.0, prior="sine")
            hi = pi
        else:
            rp = Angle(parameters=["a"], prior_bounds={"a": [0.0, 2 * pi]}, scale=1.0, prior="uniform")
            hi = 2 * pi
        rp.chi = _Chi(ctx)
        a = ctx.real("a0", 0, 7)
        ctx.assume((a > 0) & (a < hi))
        x = _struct(ctx, list(rp.parameters), 1)
        x["a"][0] = a
        xp = _struct(ctx, list(rp.prime_parameters), 1)
        x, xp, lj = rp.reparameterise(x, xp, _zeros(ctx, 1))
        r = rp.chi.drawn[0]
        if kind == "sine" and ctx.mode == "sym":
            ctx.axiom(snp.sin(a) > 0)    # sin is positive on (0, pi)
        lp = rp.x_prime_log_prior(xp)
        lp = lp[0] if np.ndim(lp) else lp
        # original prior of (angle, auxiliary radius) minus the reported log-Jacobian
        log_chi2 = snp.log(r) - r * r / 2          # chi distribution with 2 degrees of freedom
        if kind == "sine":
            want = snp.log(snp.sin(a) / 2) + log_chi2 - lj[0]
        else:
            want = -snp.log(2 * pi) + log_chi2 - lj[0]
            # the code's constant is -log(k) with k = scale * pi: the property allows a point-independent constant
            want = want + (snp.log(2 * pi) - snp.log(rp._k))
        if getattr(ctx, "mutant", None) == "prior":
            want = want + r
        ctx.prove_eq(lp, want, "R4 prime prior = original prior / Jacobian (up to a point-independent constant)")
        ctx.cover("end")
    return body


def make_to_cartesian(mode):
    def body(ctx):
        from nessai.reparameterisations.angle import ToCartesian
        pi = _pi(ctx)
        lo, hi = ctx.real("lo", -3, 3), ctx.real("hi", -3, 3)
        ctx.assume(lo < hi)
        # the class default scale=np.pi is bound at import time; pass the same pi the trigonometric axioms use
        rp = ToCartesian(parameters=["a"], prior_bounds={"a": [lo, hi]}, mode=mode, scale=pi)
        rp.chi = _Chi(ctx)
        X = {"a": []}
        for i in range(1):
            a = ctx.real(f"a{i}", -3, 3)
            ctx.assume((a > lo) & (a < hi))
            X["a"].append(a)
        _check_nd(ctx, rp, ["a"], X, {}, ["a"])
        ctx.cover("end")
    return body


def make_angle_pair(convention, radial):
    def body(ctx):
        from nessai.reparameterisations.angle import AnglePair
        pi = _pi(ctx)
        if convention == "az-zen":
            vb, vlo, vhi = [0.0, pi], 0.0, pi
        else:
            vb, vlo, vhi = [-pi / 2, pi / 2], -pi / 2, pi / 2
        hb = [0.0, 2 * pi]
        params = ["h", "v"] + (["r"] if radial else [])
        pb = {"h": hb, "v": vb}
        if radial:
            pb["r"] = [0.0, 5.0]
        rp = AnglePair(parameters=list(params), prior_bounds=pb)
        if not radial:
            rp.chi = _Chi(ctx)
        X = {p: [] for p in params}
        for i in range(1):
            hv = ctx.real(f"h{i}", 0, 7)
            ctx.assume((hv > 0) & (hv < 2 * pi))
            vv = ctx.real(f"v{i}", -4, 4)
            ctx.assume((vv > vlo) & (vv < vhi))     # the poles are excluded
            if ctx.mode == "sym":
                snp = _snp(ctx)
                # sign of the trigonometric functions on the open interval (ground instances of a true fact)
                ctx.axiom(snp.sin(vv) > 0 if convention == "az-zen" else snp.cos(vv) > 0)
            X["h"].append(hv)
            X["v"].append(vv)
            if radial:
                r = ctx.real(f"r{i}", 0, 5)
                ctx.assume(r > 0)
                X["r"].append(r)
        names = list(rp.parameters)[:len(params)]
        Xn = {rp.parameters[0]: X["h"], rp.parameters[1]: X["v"]}
        if radial:
            Xn[rp.parameters[2]] = X["r"]
        _check_nd(ctx, rp, names, Xn, {}, names, ratio=1.0 if radial else None)
        ctx.cover("end")
    return body


def make_angle_pair_prior(convention):
    """AnglePair with the isotropic prime prior: N(0, I_3) density = isotropic angles x chi(3) radius / Jacobian, exactly."""
    def body(ctx):
        from nessai.reparameterisations.angle import AnglePair
        snp = _snp(ctx)
        pi = _pi(ctx)
        if convention == "az-zen":
            vb, vlo, vhi, conv = [0.0, pi], 0.0, pi, None
        else:
            # convention detected from the bounds (the table of the explicit option holds doubles bound at import time)
            vb, vlo, vhi, conv = [-pi / 2, pi / 2], -pi / 2, pi / 2, None
        rp = AnglePair(parameters=["h", "v"], prior_bounds={"h": [0.0, 2 * pi], "v": vb}, prior="isotropic", convention=conv)
        rp.chi = _Chi(ctx)
        hv = ctx.real("h0", 0, 7)
        ctx.assume((hv > 0) & (hv < 2 * pi))
        vv = ctx.real("v0", -4, 4)
        ctx.assume((vv > vlo) & (vv < vhi))
        dens = snp.sin(vv) if convention == "az-zen" else snp.cos(vv)
        if ctx.mode == "sym":
            ctx.axiom(dens > 0)
        x = _struct(ctx, list(rp.parameters), 1)
        x[rp.parameters[0]][0], x[rp.parameters[1]][0] = hv, vv
        xp = _struct(ctx, list(rp.prime_parameters), 1)
        x, xp, lj = rp.reparameterise(x, xp, _zeros(ctx, 1))
        r = rp.chi.drawn[0]
        lp = rp.x_prime_log_prior(xp)
        lp = lp[0] if np.ndim(lp) else lp
        # isotropic angles: density sin(zenith) / (4 pi) [cos(declination)]; chi with 3 degrees of freedom: sqrt(2/pi) r^2 exp(-r^2/2)
        want = snp.log(dens) + 2 * snp.log(r) - r * r / 2 - lj[0]
        if getattr(ctx, "mutant", None) == "prior":
            want = want + r
        # constant: log(1/(4 pi)) + log(sqrt(2/pi)) = -1.5 log(2 pi), the code's own constant
        ctx.prove_eq(lp + 1.5 * snp.log(2 * pi), want, "R4 prime prior = original prior / Jacobian (up to a point-independent constant)")
        ctx.cover("end")
    return body


def make_to_cartesian_prior(mode, kind):
    """ToCartesian with a prime prior: prime prior - (original prior - reported log-Jacobian) is the same at every point and on every mirror copy."""
    def body(ctx):
        from nessai.reparameterisations.angle import ToCartesian
        snp = _snp(ctx)
        pi = _pi(ctx)
        if kind == "sine":
            lo, hi = 0.0, pi
        else:
            lo, hi = ctx.real("lo", -3, 3), ctx.real("hi", -3, 3)
            ctx.assume(lo < hi)
        rp = ToCartesian(parameters=["a"], prior_bounds={"a": [lo, hi]}, mode=mode, scale=pi, prior=kind)
        rp.chi = _Chi(ctx)
        # duplicate: one point and its mirror copy (two points and their copies are beyond the solver with the sine prior)
        n = 1 if (mode == "duplicate" and kind == "sine") else 2
        A = []
        x = _struct(ctx, list(rp.parameters), n)
        for i in range(n):
            a = ctx.real(f"a{i}", -3, 4)
            ctx.assume((a > lo) & (a < hi))
            if kind == "sine" and ctx.mode == "sym":
                ctx.axiom(snp.sin(a) > 0)
            A.append(a)
            x["a"][i] = a
        xp = _struct(ctx, list(rp.prime_parameters), n)
        x, xp, lj = rp.reparameterise(x, xp, _zeros(ctx, n))
        m = len(xp)
        lp = rp.x_prime_log_prior(_strip(ctx, xp))
        cs = []
        for k in range(m):
            i = k % n
            r = rp.chi.drawn[k]
            prior = (snp.log(snp.sin(A[i]) / 2) if kind == "sine" else 0.0) + snp.log(r) - r * r / 2
            c = (lp[k] if np.ndim(lp) else lp) - (prior - _plain(lj[k]))
            ctx.prove(ctx.valid(c > -math.inf) if ctx.mode == "sym" else c > -math.inf, "R4 points of the prior box are inside the support of the prime prior")
            cs.append(c)
        for k in range(1, m):
            ctx.prove_eq(cs[k], cs[0], "R4 prime prior = original prior / Jacobian up to a point-independent constant")
        ctx.cover("end")
    return body


def make_delta_phase():
    """GW: delta_phase = phase + sign(cos theta_jn) * psi, inverse modulo 2 pi."""
    def body(ctx):
        from nessai.gw.reparameterisations import DeltaPhaseReparameterisation
        snp = _snp(ctx)
        pi = _pi(ctx)
        rp = DeltaPhaseReparameterisation(parameters=["phase"], prior_bounds={"phase": [0.0, 2 * pi]})
        names = ["phase", "psi", "theta_jn"]
        x = _struct(ctx, names, 1)
        ph = ctx.real("phase", 0, 7)
        ctx.assume((ph >= 0) & (ph < 2 * pi))
        psi = ctx.real("psi", 0, 4)
        ctx.assume((psi >= 0) & (psi < pi))
        th = ctx.real("theta_jn", 0, 4)
        ctx.assume((th >= 0) & (th <= pi))
        x["phase"][0], x["psi"][0], x["theta_jn"][0] = ph, psi, th
        xp = _struct(ctx, ["delta_phase"], 1)
        x, xp, lj = rp.reparameterise(x, xp, _zeros(ctx, 1))
        xb = x.copy()
        xb["phase"][0] = 0.0
        xb, _, lj2 = rp.inverse_reparameterise(xb, xp, _zeros(ctx, 1))
        ctx.prove_eq(xb["phase"][0], ph, "R1 inverse(forward(phase)) = phase on [0, 2 pi)")
        ctx.prove_eq(lj[0], 0.0, "delta-phase shift has zero log-Jacobian")
        ctx.prove_eq(lj2[0], 0.0, "and so has its inverse")
        ctx.cover("end")
    return body


def make_distance(power, variant):
    """GW: DistanceReparameterisation with the power-law converter (integer power)."""
    def body(ctx):
        from nessai.gw.reparameterisations import DistanceReparameterisation
        # distances arbitrarily close to zero relative to the converter's scale are part of the prior box
        lo, hi = ctx.real("d_min", 0, 50), ctx.real("d_max", 0, 50)
        ctx.assume((lo > 0) & (lo < hi))
        kw = dict(prior="power-law", converter_kwargs=dict(power=power, scale=10.0))
        fwd = {}
        # (without boundary_inversion the constructor raises AttributeError on detect_edges_kwargs: not a configuration
        # the proposal accepts; see DESIGN, observations outside the properties)
        upd = bool(ctx.choice("after_update", 2))
        kw.update(boundary_inversion=True, inversion_type="duplicate", update_bounds=upd)
        fwd["test"] = variant    # 'upper' or False through the code's own hook
        rp = DistanceReparameterisation(parameters=["d"], prior_bounds={"d": [lo, hi]}, **kw)
        if upd:
            xt = _struct(ctx, ["d"], 2)
            a, b = ctx.real("ta", 0, 50), ctx.real("tb", 0, 50)
            ctx.assume((lo <= a) & (a < b) & (b <= hi))
            xt["d"][0], xt["d"][1] = a, b
            rp.update(xt)
        X = {"d": []}
        for i in range(2):
            v = ctx.real(f"d{i}", 0, 50)
            ctx.assume((v > lo) & (v < hi))
            if upd:
                ctx.assume((a <= v) & (v <= b))
            X["d"].append(v)
        snp = _snp(ctx)
        _check_1d(ctx, rp, ["d"], X, fwd, True, None, log_prior=lambda i: power * snp.log(X["d"][i]))
        ctx.cover("end")
    return body


def make_gw_registry():
    def body(ctx):
        from nessai.gw.reparameterisations import get_gw_reparameterisation, default_gw
        from nessai.reparameterisations import RescaleToBounds, AnglePair
        ctx.prove(default_gw["time"][0] is RescaleToBounds and default_gw["mass"][0] is RescaleToBounds and default_gw["mass_ratio"][0] is RescaleToBounds,
                  "GW names time / mass / mass_ratio map to RescaleToBounds")
        ctx.prove(default_gw["sky-ra-dec"][0] is AnglePair and default_gw["sky-az-zen"][0] is AnglePair, "GW sky names map to AnglePair")
        k = ["time", "mass", "mass_ratio"][ctx.choice("gw_name", 3)]
        cls, kwargs = get_gw_reparameterisation(k)
        kwargs = dict(kwargs or {})
        lo, hi = ctx.real("lo", -5, 5), ctx.real("hi", -5, 5)
        ctx.assume(lo < hi)
        rp = cls(parameters=["x"], prior_bounds={"x": [lo, hi]}, **kwargs)
        upd = bool(ctx.choice("after_update", 2))
        if upd:
            xt = _struct(ctx, ["x"], 2)
            a, b = ctx.real("ta", -5, 5), ctx.real("tb", -5, 5)
            ctx.assume((lo <= a) & (a < b) & (b <= hi))
            xt["x"][0], xt["x"][1] = a, b
            rp.update(xt)
        X = {"x": []}
        for i in range(2):
            v = ctx.real(f"x{i}", -5, 5)
            ctx.assume((lo < v) & (v < hi))
            if upd and getattr(rp, "boundary_inversion", False):
                # with boundary inversion the folded map is only injective inside the range it was fitted on
                ctx.assume((a <= v) & (v <= b))
            X["x"].append(v)
        kw = {}
        if getattr(rp, "boundary_inversion", False):
            kw["test"] = ["lower", "upper", False][ctx.choice("edge", 3)]
        _check_1d(ctx, rp, ["x"], X, kw, False, None)
        ctx.cover("end")
    return body


def make_combined():
    def body(ctx):
        from nessai.reparameterisations.combined import CombinedReparameterisation
        from nessai.reparameterisations.rescale import RescaleToBounds
        lo, hi = ctx.real("lo", -5, 5), ctx.real("hi", -5, 5)
        ctx.assume(lo < hi)
        lo2, hi2 = ctx.real("lo2", -5, 5), ctx.real("hi2", -5, 5)
        ctx.assume(lo2 < hi2)
        a = RescaleToBounds(parameters=["x"], prior_bounds={"x": [lo, hi]})
        b = RescaleToBounds(parameters=["y"], prior_bounds={"y": [lo2, hi2]}, rescale_bounds=[0, 1], post_rescaling="logit", update_bounds=False)
        rp = CombinedReparameterisation()
        rp.add_reparameterisations([a, b])
        X = {"x": [], "y": []}
        for i in range(2):
            x = ctx.real(f"x{i}", -5, 5)
            ctx.assume((x > lo) & (x < hi))
            y = ctx.real(f"y{i}", -5, 5)
            ctx.assume((y > lo2) & (y < hi2))
            X["x"].append(x)
            X["y"].append(y)
        ctx.prove(list(rp.parameters) == ["x", "y"] and len(rp.prime_parameters) == 2, "combined parameters are the union in order")
        _check_nd(ctx, rp, ["x", "y"], X, {}, ["x", "y"])
        ctx.cover("end")
    return body


def units(tier):
    us = []
    opts = dict(exp_axioms="signs", fresh=True, timeout_ms=60000)
    for name in RTB_CONFIGS:
        muts = ["r1", "r2", "r3"] if name == "default" else []
        o = dict(opts, exp_axioms="full") if RTB_CONFIGS[name].get("positive") else opts
        us.append(Unit(f"rescale_to_bounds[{name}]", make_rtb(name), MODS, o, expect_cover=["end"], mutants=muts, twin_runs=15, witness_every=3, nproc=1, time_budget_s=600))
    us.append(Unit("rescale_to_bounds[default,2params]", make_rtb("default", nparams=2), MODS, opts, expect_cover=["end"], twin_runs=10, witness_every=3, nproc=1))
    for v in ("fixed", "noshift", "estimated"):
        us.append(Unit(f"scale_and_shift[{v}]", make_scale_shift(v), MODS, opts, expect_cover=["end"], twin_runs=10, witness_every=2, nproc=1))
    us.append(Unit("null", make_null(), MODS, opts, expect_cover=["end"], twin_runs=5, witness_every=1, nproc=1))
    for v in ("zero_2pi", "sym_pi", "auto_scale"):
        us.append(Unit(f"angle[{v}]", make_angle(v), MODS, opts, expect_cover=["end"], mutants=["r1", "r3"] if v == "zero_2pi" else [], twin_runs=15, witness_every=2, nproc=1, time_budget_s=600))
    for kind in ("sine", "uniform"):
        us.append(Unit(f"angle_prime_prior[{kind}]", make_angle_prior(kind), MODS, dict(opts, exp_axioms="full"), expect_cover=["end"], mutants=["prior"] if kind == "sine" else [], twin_runs=10, witness_every=1, nproc=1, time_budget_s=600))
    us.append(Unit("angle[auxiliary_radius]", make_angle_aux_radius(), MODS, opts, expect_cover=["end"], twin_runs=10, witness_every=2, nproc=1))
    for mode in ("duplicate", "split", "half"):
        us.append(Unit(f"to_cartesian[{mode}]", make_to_cartesian(mode), MODS, opts, expect_cover=["end"], twin_runs=10, witness_every=2, nproc=1, time_budget_s=600))
    for conv in ("az-zen", "ra-dec"):
        for radial in (True, False):
            us.append(Unit(f"angle_pair[{conv},radial={radial}]", make_angle_pair(conv, radial), MODS, opts, expect_cover=["end"], twin_runs=10, witness_every=2, nproc=1, time_budget_s=600))
    for conv in ("az-zen", "ra-dec"):
        us.append(Unit(f"angle_pair_prime_prior[{conv}]", make_angle_pair_prior(conv), MODS, dict(opts, exp_axioms="full"), expect_cover=["end"], mutants=["prior"] if conv == "az-zen" else [],
                       twin_runs=10, witness_every=1, nproc=1, time_budget_s=600))
    for mode in ("duplicate", "split", "half"):
        for kind in ("uniform", "sine"):
            us.append(Unit(f"to_cartesian_prime_prior[{mode},{kind}]", make_to_cartesian_prior(mode, kind), MODS, dict(opts, exp_axioms="full"), expect_cover=["end"],
                           twin_runs=10, witness_every=1, nproc=1, time_budget_s=600))
    gw_mods = MODS + ["nessai.gw.reparameterisations", "nessai.gw.utils"]
    us.append(Unit("gw_delta_phase", make_delta_phase(), gw_mods, opts, expect_cover=["end"], twin_runs=20, witness_every=1, nproc=1, time_budget_s=600))
    for power in (1, 2):
        for variant in ("upper", False):
            us.append(Unit(f"gw_distance[power={power},{variant}]", make_distance(power, variant), gw_mods, dict(opts, exp_axioms="full"), expect_cover=["end"], twin_runs=10,
                           witness_every=1, nproc=1, time_budget_s=600))
    us.append(Unit("gw_registry[time,mass,mass_ratio]", make_gw_registry(), gw_mods, opts, expect_cover=["end"], twin_runs=30, witness_every=2, nproc=1, time_budget_s=900))
    us.append(Unit("combined[affine+logit]", make_combined(), MODS, opts, expect_cover=["end"], twin_runs=10, witness_every=2, nproc=1))
    us.append(Unit("registry_1d", make_registry(), MODS + ["nessai.reparameterisations"], opts, expect_cover=["end"], twin_runs=30, witness_every=2, nproc=1, time_budget_s=900))
    return us
