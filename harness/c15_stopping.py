"""C15 - sampling stops exactly per the stopping rule; finished runs are idempotent.

The real loop heads of both samplers are executed with their bodies stubbed and
a *symbolic* sequence of condition / criterion values, tolerances, caps and
minimum iterations; the importance sampler's criteria are executed for real on
symbolic samples (log-semiring) and compared with their textbook definitions.
"""
import datetime
import math

import numpy as np

from sx import symnp as _symnp
from sx.logic import AND, NOT, OR
from sx.runner import Unit

ID = "C15"
FUNCTIONS = [
    "nessai.samplers.nestedsampler.NestedSampler.nested_sampling_loop",
    "nessai.samplers.nestedsampler.NestedSampler.consume_sample",
    "nessai.samplers.nestedsampler.NestedSampler.finalise",
    "nessai.samplers.importancesampler.ImportanceNestedSampler.nested_sampling_loop",
    "nessai.samplers.importancesampler.ImportanceNestedSampler.reached_tolerance",
    "nessai.samplers.importancesampler.ImportanceNestedSampler.configure_stopping_criterion",
    "nessai.samplers.importancesampler.ImportanceNestedSampler.compute_stopping_criterion",
    "nessai.samplers.importancesampler.OrderedSamples.compute_evidence_ratio",
    "nessai.evidence._INSIntegralState.update_evidence",
    "nessai.evidence._INSIntegralState.compute_evidence_ratio",
    "nessai.evidence._INSIntegralState.compute_uncertainty",
    "nessai.evidence._BaseNSIntegralState.effective_n_posterior_samples",
    "nessai.evidence.log_evidence_from_ins_samples",
]
BOUNDS = {
    "quick": dict(loop_iterations="<=4 (symbolic cap 1..4, symbolic minimum 0..3)", criteria="1..3 with symbolic values and tolerances, any/all", ins_store="3 samples (2 live + 1 discarded ... 1 live + 2 discarded)"),
    "thorough": dict(loop_iterations="<=6", criteria="1..3 with symbolic values and tolerances, any/all", ins_store="4 samples"),
}
SCOPE = "Condition values, tolerances, caps are symbolic; the loop bodies are stubs that only advance the iteration and set the next symbolic value."
ASSUMPTIONS = [
    "the loop body methods (check_state, update_state, training, drawing) do not change the stopping condition other than through consume_sample / compute_stopping_criterion (stubs)",
    "sqrt is the non-negative root (axiom s >= 0, s*s = u); exp/log as in C02",
]
OUTSIDE = ["real runs over seeds and models", "the criterion Z_err = exp(log evidence error), which has no standard definition and is only checked to be the value compared"]

PARALLEL_UNITS = True
MODS = ["nessai.samplers.nestedsampler", "nessai.samplers.importancesampler", "nessai.evidence", "nessai.samplers.base"]


class _P:
    population_time = datetime.timedelta()


class _M:
    likelihood_evaluations = 3
    likelihood_evaluation_time = datetime.timedelta()

    def from_unit_hypercube(self, x):
        return x


class _State:
    def __init__(self, ctx):
        self.logZ = ctx.real("logZ")
        self.log_evidence_error = 0.1
        self.info = [0.0, 1.0]
        self.log_evidence = self.logZ


def make_standard_loop(depth):
    def body(ctx):
        from nessai.samplers.nestedsampler import NestedSampler
        mut = getattr(ctx, "mutant", None)
        ns = NestedSampler.__new__(NestedSampler)
        conds = [ctx.real(f"cond{i}") for i in range(depth + 1)]
        tol = ctx.real("tol")
        cap = 1 + ctx.choice("max_iteration", depth)
        ns.finalised = False
        ns.initialised = True
        ns.prior_sampling = False
        ns.resumed = False
        ns._close_pool = False
        ns.iteration = 0
        ns.condition = conds[0]
        ns.tolerance = tol
        ns.max_iteration = cap
        ns.state = _State(ctx)
        ns.nested_samples = [1.0, 2.0]
        ns.sampling_time = datetime.timedelta()
        ns.training_time = datetime.timedelta()
        ns._uninformed_proposal, ns._flow_proposal = _P(), _P()
        ns.model = _M()
        log = []
        ns.check_state = lambda force=False: log.append("check")
        ns.update_state = lambda force=False: log.append("update")
        ns.periodically_log_state = lambda: None
        ns.check_insertion_indices = lambda rolling=True, filename=None: None
        ns.checkpoint = lambda periodic=False, force=False: log.append("checkpoint")

        def consume():
            ns.iteration += 1
            if ns.iteration > depth:
                from sx.engine import OutOfBound
                raise OutOfBound("loop longer than the bound")
            ns.condition = conds[ns.iteration]
            log.append("consume")
        ns.consume_sample = consume

        refined = ctx.real("logZ_refined")

        def finalise():
            log.append("finalise")
            ns.state.logZ = refined      # the final refinement changes the evidence
            ns.state.log_evidence = refined
            ns.finalised = True
        ns.finalise = finalise
        out = ns.nested_sampling_loop()
        n = log.count("consume")
        # reference: iterate while cond > tol and iteration < cap
        exp_n = 0
        while exp_n < cap and bool(conds[exp_n] > tol):
            exp_n += 1
        if mut == "cap":
            exp_n = min(exp_n + 1, depth)
        ctx.prove(n == exp_n, "iterates while the remaining-evidence condition exceeds the tolerance, stops at the first iteration where it does not, or at the cap")
        left_by_tol = bool(conds[n] <= tol)
        ctx.prove((log.count("finalise") == 1) == left_by_tol, "finalise runs exactly when the loop ended because the condition met the tolerance")
        ctx.prove(log.count("checkpoint") == 1, "one final checkpoint")
        ctx.prove_eq(out[0], ns.state.logZ, "returned evidence is the state's after the final refinement")
        # second call
        log2 = list(log)
        del log[:]
        out2 = ns.nested_sampling_loop()
        if left_by_tol:
            ctx.prove(log == [], "running again after finishing does no work (no likelihood evaluation, no checkpoint)")
            ctx.prove_eq(out2[0], out[0], "running again returns the same evidence")
            ctx.prove(len(out2[1]) == len(out[1]), "running again returns the same samples")
        ctx.cover("end")
    return body


def make_ins_loop(depth, ncrit):
    def body(ctx):
        from nessai.samplers.importancesampler import ImportanceNestedSampler
        mut = getattr(ctx, "mutant", None)
        ins = ImportanceNestedSampler.__new__(ImportanceNestedSampler)
        names = ["ratio", "ess", "log_dZ"][:ncrit]
        check = ["any", "all"][ctx.choice("check_criteria", 2)]
        tols = [ctx.real(f"tol{j}") for j in range(ncrit)]

        class FT(float):
            pass
        # configure through the real method (tolerances are cast with float(): keep them symbolic via the module-level float shim)
        ins.configure_stopping_criterion(names if ncrit > 1 else names[0], tols if ncrit > 1 else tols[0], check)
        ctx.prove(ins.stopping_criterion == names and len(ins.tolerance) == ncrit, "criteria configured as requested")
        crit = [[ctx.real(f"c{i}_{j}") for j in range(ncrit)] for i in range(depth + 1)]
        ins.finalised = False
        ins.iteration = 0
        ins.min_iteration = ctx.choice("min_iteration", depth)
        ins.max_iteration = 1 + ctx.choice("max_iteration", depth)
        ins.n_update = None
        ins.threshold_method = "entropy"
        ins.threshold_kwargs = {}
        ins.draw_constant = True
        ins.replace_all = False
        ins.nlive = 5
        ins.plotting_frequency = 10**6
        ins.checkpointing = False
        ins.draw_iid_live = False
        ins.model = _M()
        ins.training_time = ins.draw_samples_time = ins.add_and_update_samples_time = datetime.timedelta()

        class Store:
            live_points = np.zeros(1)
            samples = np.zeros(1)
            nested_samples = np.zeros(1)

            class state:
                logZ = 0.0
        ins.training_samples = Store()
        ins.iid_samples = None
        log = []
        for name in ("_compute_gradient", "add_new_proposal", "update_evidence", "log_state", "update_history", "produce_plots"):
            setattr(ins, name, lambda *a, **k: None)
        ins.initialise = lambda: log.append("initialise")   # draws and evaluates live points when there are none
        ins.determine_log_likelihood_threshold = lambda *a, **k: 0.0
        ins.update_log_likelihood_threshold = lambda t: None
        ins.remove_samples = lambda: 1
        ins.add_new_proposal_weight = lambda it, n: None
        ins.add_and_update_points = lambda n: log.append("iter")
        ins.compute_importance = lambda **k: {}

        def csc():
            i = ins.iteration
            if i > depth:
                from sx.engine import OutOfBound
                raise OutOfBound("loop longer than the bound")
            return crit[i]
        ins.compute_stopping_criterion = csc

        def finalise():
            log.append("finalise")
            ins.finalised = True
        ins.finalise = finalise
        ins.nested_sampling_loop()
        n = log.count("iter")

        def met(i):
            cs = [bool(crit[i][j] <= tols[j]) for j in range(ncrit)]
            return any(cs) if check == "any" else all(cs)
        exp_n = 0
        while True:
            if exp_n > 0 and met(exp_n - 1) and exp_n >= ins.min_iteration:
                break
            # (before the first iteration the criterion is +inf: never met)
            exp_n += 1
            if exp_n >= ins.max_iteration:
                break
        if mut == "anyall":
            exp_n = exp_n + 1
        ctx.prove(n == exp_n, "stops at the first iteration at or beyond the minimum where the criteria (any/all) meet their tolerances, or at the cap")
        ctx.prove(log.count("finalise") == 1 and log[-1] == "finalise", "finalise runs once, after the loop")
        del log[:]
        ins.nested_sampling_loop()
        ctx.prove(log == [], "running again after finishing does no work (no initialisation, no likelihood evaluation)")
        ctx.cover("end")
    return body


def _snp(ctx):
    return _symnp.symnp if ctx.mode == "sym" else np


def make_criteria(m, n_live):
    """compute_stopping_criterion on a real store of m samples (n_live live) vs. the textbook definitions."""
    def body(ctx):
        from nessai.samplers.importancesampler import ImportanceNestedSampler, OrderedSamples
        mut = getattr(ctx, "mutant", None)
        snp = _snp(ctx)
        f = "O" if ctx.mode == "sym" else "f8"
        dt = np.dtype([("x", f), ("logL", f), ("logW", f)])
        s = np.empty(m, dtype=dt)
        Ls = [ctx.real(f"L{i}", -3, 3) for i in range(m)]
        for i in range(m - 1):
            ctx.assume(Ls[i] <= Ls[i + 1])
        lw = [ctx.logval(f"W{i}", positive=True) for i in range(m)]
        for i in range(m):
            s[i] = (0.0, Ls[i], lw[i])
        os_ = OrderedSamples()
        os_.samples = s
        os_.nested_samples_indices = np.arange(m - n_live)
        os_.live_points_indices = np.arange(m - n_live, m)
        T = Ls[m - n_live]  # the threshold is the likelihood of the first live sample
        os_.log_likelihood_threshold = T
        os_.update_evidence()
        ins = ImportanceNestedSampler.__new__(ImportanceNestedSampler)
        ins.training_samples = os_
        ins.iid_samples = None
        ins.draw_iid_live = False
        ins.iteration = 1
        prev = ctx.real("prev_logZ", -3, 3)
        ins.history = dict(logZ=[prev])
        ins.stopping_criterion = ["ratio", "ratio_ns", "ess", "log_dZ", "fractional_error", "Z_err"]
        ins.tolerance = [0.0] * 6
        cond = ins.compute_stopping_criterion()
        ctx.prove(len(cond) == 6, "one value per configured criterion")
        for name, v in zip(ins.stopping_criterion, cond):
            ctx.prove_eq(getattr(ins, name), v, "the value compared with the tolerance is the value stored on the sampler (and reported in the history)")
        ratio, ratio_ns, ess, log_dz, fe, zerr = cond
        w = [snp.exp(Ls[i] + lw[i]) for i in range(m)]
        tot = w[0]
        sq = w[0] * w[0]
        for x in w[1:]:
            tot, sq = tot + x, sq + x * x
        zhat = tot / m
        # ess
        ctx.prove_eq(ess * sq, tot * tot, "ess = (sum w)^2 / sum w^2")
        # log_dZ = |log Zhat - previous|
        lz = snp.log(zhat)
        d = lz - prev
        ctx.prove_eq(log_dz, d if bool(d >= 0) else -d, "log_dZ = |log Z_t - log Z_(t-1)| with the previous value from the history")
        # fractional error
        var = 0.0
        for x in w:
            var = var + (x - zhat) * (x - zhat)
        if mut == "fe":
            var = var + zhat
        if ctx.mode == "sym":
            ctx.prove((fe >= 0) & (fe * fe * zhat * zhat * (m * (m - 1)) == var), "fractional_error = sqrt(sum (w_i - Zhat)^2 / (n (n-1))) / Zhat")
        else:
            ctx.prove_eq(fe * fe * zhat * zhat * (m * (m - 1)), var, "fractional_error = sqrt(sum (w_i - Zhat)^2 / (n (n-1))) / Zhat")
        # ratio: evidence in the samples at or above the threshold vs all
        idx = [i for i in range(m) if bool(Ls[i] >= T)]
        za = w[idx[0]]
        for i in idx[1:]:
            za = za + w[i]
        ctx.prove_eq(ratio, snp.log(za / len(idx)) - lz, "ratio = log mean weight of the samples at or above the threshold - log Z")
        zl = w[m - n_live]
        for i in range(m - n_live + 1, m):
            zl = zl + w[i]
        zn = w[0]
        for i in range(1, m - n_live):
            zn = zn + w[i]
        ctx.prove_eq(ratio_ns, snp.log(zl / n_live) - snp.log(zn / (m - n_live)), "ratio_ns = log mean weight of the live points - log mean weight of the discarded samples")
        ctx.cover("end")
    return body


def make_condition_formula(N):
    """consume_sample's remaining-evidence condition."""
    def body(ctx):
        from harness import c01_liveset as c01
        snp = _snp(ctx)
        dt = c01._dtype()
        ns = c01._sampler(ctx, N)
        Ls = [ctx.real(f"L{i}") for i in range(N)]
        for i in range(N - 1):
            ctx.assume(Ls[i] <= Ls[i + 1])
        live = np.empty(N, dtype=dt)
        for i in range(N):
            live[i] = (0.0, 0.0, Ls[i], 0, i)
        ns.live_points = live
        prev = ctx.real("prevL")
        ctx.assume(prev <= Ls[0])
        lmax = ctx.real("logLmax")
        ctx.assume(lmax >= Ls[N - 1])
        ns.logLmax, ns.logLmin = lmax, prev
        it0 = 1 + ctx.choice("iteration", 3)
        ns.iteration = it0
        from sx.values import Sym, rv
        # exact constant for the live count (a pre-rounded 1/3 would make the identity hold only approximately)
        n_sym = Sym(rv(N)) if ctx.mode == "sym" else float(N)
        ns.nlive = n_sym if ctx.mode == "sym" else N
        ns.state.base_nlive = n_sym
        ns.state.logLs = [-np.inf, prev]
        ns.state.log_vols = [0.0, -1.0 / n_sym]
        ns.state.logw = -1.0 / n_sym
        ns.state.logZ = ctx.logval("Z0", positive=True)
        ns.proposal = c01.StubProposal(ctx, dt, 1, tag0=100, specials=False, nonfinite_prior=False, nonzero=True)
        ns.debug_enabled = False
        ns.consume_sample()
        ref = snp.logaddexp(ns.state.logZ, lmax - it0 / n_sym) - ns.state.logZ
        ctx.prove_eq(ns.condition, ref, "condition = log(1 + Lmax exp(-iteration/nlive) / Z) with the evidence after the increment")
        ctx.prove(ns.condition > 0, "the remaining-evidence condition is positive")
        ctx.cover("end")
    return body


def units(tier):
    from harness import c01_liveset as c01
    us = []
    q = tier == "quick"
    d = 4 if q else 6
    lin = dict()
    us.append(Unit(f"standard_loop[depth={d}]", make_standard_loop(d), MODS, lin, expect_cover=["end"], mutants=["cap"], twin_runs=40, witness_every=5, nproc=1))
    for ncrit in (1, 2, 3):
        us.append(Unit(f"ins_loop[depth={d - 1},criteria={ncrit}]", make_ins_loop(d - 1, ncrit), MODS, lin, expect_cover=["end"],
                       mutants=["anyall"] if ncrit == 2 else [], twin_runs=40, witness_every=25, nproc=1))
    nl = dict(exp_axioms="signs", fresh=True, timeout_ms=60000)
    for (m, nlv) in ([(3, 1), (3, 2)] if q else [(3, 1), (3, 2), (4, 2), (4, 3)]):
        us.append(Unit(f"criteria[m={m},live={nlv}]", make_criteria(m, nlv), MODS, nl, expect_cover=["end"], mutants=["fe"] if (m, nlv) == (3, 1) else [],
                       twin_runs=20, witness_every=2, nproc=1))
    for N in (1, 3):
        us.append(Unit(f"condition_formula[N={N}]", make_condition_formula(N), c01.MODS, dict(exp_axioms="signs", fresh=True), expect_cover=["end"], twin_runs=20,
                       witness_every=3, nproc=1, setup=c01.setup, extra_patches=c01.EXTRA))
    return us
