"""C02 - evidence and posterior weights equal the documented NS quadrature.

The real `_NSIntegralState` (increment / finalise / log_posterior_weights),
`log_integrate_log_trap`, `logsubexp` and `posterior.compute_weights` are
executed on log-semiring values; their results are rational functions of
L_i = exp(logL_i) and the shrinkage atoms, and are compared with an independent
reference quadrature as exact identities.  IEEE rounding is covered only by
the QF_FP lemmas L1-L3.
"""
import math

import numpy as np

from sx import symnp as _symnp
from sx.runner import Unit

ID = "C02"
FUNCTIONS = [
    "nessai.evidence._NSIntegralState.__init__",
    "nessai.evidence._NSIntegralState.increment",
    "nessai.evidence._NSIntegralState.finalise",
    "nessai.evidence._NSIntegralState.log_posterior_weights",
    "nessai.evidence._NSIntegralState.get_logx_live_points",
    "nessai.evidence.logsubexp",
    "nessai.evidence.log_integrate_log_trap",
    "nessai.posterior.compute_weights",
]
BOUNDS = {
    "quick": dict(dead_points_M="1..6", schedules="constant symbolic n>=1 and per-iteration symbolic n_i>=1", modes=["logt", "t"], integer_nlive="1..4",
                  fp_lemmas="L1 w in [-1e6,0], n in [1,1e6]; L2 t in [-1,-1e-9]; L3 all finite doubles"),
    "thorough": dict(dead_points_M="1..10 with a constant symbolic live count n>=1, 1..6 with per-iteration symbolic live counts n_i>=1", schedules="constant and per-iteration", modes=["logt", "t"], integer_nlive="1..6",
                     fp_lemmas="L1 w in [-1e6,0], n in [1,1e6]; L2 t in [-1,-1e-9]; L3 all finite doubles"),
}
SCOPE = ("Exact real arithmetic with exp/log handled through their algebraic laws (log-semiring); the property's 'to floating-point accuracy' "
         "is replaced by 'identically in exact arithmetic' plus bit-precise lemmas L1-L3 for the leaf facts the real model assumes.")
ASSUMPTIONS = [
    "exp is a positive, strictly increasing homomorphism from (R,+) to (R>0,*) with exp(t) >= 1+t; nothing else about exp/log is used",
    "live counts are real numbers >= 1 (integers are a special case)",
    "dead-point likelihoods are non-decreasing; 0, 1 or 2 leading values are -inf, the others finite",
]
OUTSIDE = ["the degenerate case where every likelihood is -inf (Z = 0, weights undefined)", "size of the rounding error of the double computation", "sequences longer than M", "the information H and the error estimate built on it (opaque in this domain)",
           "lemma L4 (a rounded constant shift never reverses an order): neither z3 nor cvc5 decides it within 10 minutes"]

PARALLEL_UNITS = True
MODS = ["nessai.evidence", "nessai.posterior"]


def _snp(ctx):
    return _symnp.symnp if ctx.mode == "sym" else np


def _lse(ctx):
    if ctx.mode == "sym":
        return _symnp.logsumexp
    from scipy.special import logsumexp
    return logsumexp


def _inputs(ctx, M, sched, z=0):
    """z leading -inf likelihoods (concrete), then M-z positive symbolic ones, non-decreasing."""
    Ls = [-math.inf] * z + [ctx.logval(f"L{i}", positive=True) for i in range(z, M)]
    for i in range(z, M - 1):
        ctx.assume(Ls[i] <= Ls[i + 1])
    if sched == "const":
        n = ctx.real("n", lo=1, hi=None if ctx.mode == "sym" else 50)
        ns = [n] * M
    else:
        ns = [ctx.real(f"n{i}", lo=1, hi=None if ctx.mode == "sym" else 50) for i in range(M)]
    return Ls, ns


def _reference(ctx, Ls, ns, mode):
    """Independent reference: volumes X_i, rectangle and trapezoid sums (plain values)."""
    snp = _snp(ctx)
    X = [1.0]
    for n in ns:
        t = snp.exp(-1.0 / n) if mode == "logt" else n / (n + 1.0)
        X.append(X[-1] * t)
    L = [0.0 if (isinstance(l, float) and l == -math.inf) else snp.exp(l) for l in Ls]
    M = len(Ls)
    rect = 0.0
    for i in range(M):
        rect = rect + L[i] * (X[i] - X[i + 1])
    # trapezoid over (1,0),(X_1,L_1)...(X_M,L_M),(0,L_M)
    Lx = [0.0] + L + [L[-1]]
    Xx = X + [0.0]
    trap = 0.0
    for i in range(M + 1):
        trap = trap + (Lx[i] + Lx[i + 1]) / 2 * (Xx[i] - Xx[i + 1])
    return X, L, rect, trap


def _conj(conds):
    r = True
    for c in conds:
        r = r & c
    return r


def _plain_eq(ctx, a, b, label):
    """a, b plain values: prove equality (cross-multiplied in symbolic mode)."""
    if ctx.mode == "conc":
        return ctx.prove_eq(a, b, label)
    from sx.values import lift, ratfun, SymBool
    la, lb = lift(a), lift(b)
    n1, d1 = ratfun(la.real())
    n2, d2 = ratfun(lb.real())
    return ctx.prove(SymBool(n1 * d2 == n2 * d1), label)


def _log_eq_plain(ctx, logv, plainv, label):
    """log-kind value == log(plain value)."""
    snp = _snp(ctx)
    if ctx.mode == "conc":
        with np.errstate(divide="ignore"):
            return ctx.prove_eq(logv, np.log(plainv), label)
    return ctx.prove_eq(logv, snp.log(plainv), label)


def make_state(M, sched, mode, z=0):
    def body(ctx):
        from nessai.evidence import _NSIntegralState
        mut = getattr(ctx, "mutant", None)
        snp = _snp(ctx)
        Ls, ns = _inputs(ctx, M, sched, z)
        exp_args = []
        local_args = []

        def hook(a):
            exp_args.append(a)
            # exp calls made by the quadrature itself (not the information estimate) must be "local":
            import sys
            f = sys._getframe(1)
            names = set()
            while f is not None:
                names.add(f.f_code.co_name)
                f = f.f_back
            if names & {"log_integrate_log_trap", "logsubexp", "compute_weights", "get_logx_live_points"}:
                local_args.append(a)
        X, L, rect, trap = _reference(ctx, Ls, ns, mode)
        import contextlib
        rec = contextlib.nullcontext()
        if ctx.mode == "sym":
            _symnp.HOOKS["exp"] = hook
        else:
            import nessai.evidence as _ev
            import nessai.posterior as _po
            rec = _symnp.recording([_ev, _po], {"exp": hook})
        try:
          with rec:
              st = _NSIntegralState(ns[0], track_gradients=False, expectation=mode)
              for i in range(M):
                  st.increment(Ls[i], nlive=None if sched == "const" else ns[i])
                  part = 0.0
                  for j in range(i + 1):
                      part = part + L[j] * (X[j] - X[j + 1])
                  if mut == "rect" and i == M - 1:
                      part = part + L[0] * X[1]
                  _log_eq_plain(ctx, st.logZ, part, "O1 incremental logZ = log sum L_i (X_{i-1} - X_i)")
              ctx.prove(len(st.log_vols) == M + 1 and len(st.logLs) == M + 1, "one volume/likelihood entry per increment")
              ctx.prove_eq(st.log_vols[0], 0.0, "O4 log-volumes start at 0")
              ctx.prove(_conj([st.log_vols[i + 1] < st.log_vols[i] for i in range(M)]), "O4 log-volumes strictly decrease")
              for i in range(M + 1):
                  _log_eq_plain(ctx, st.log_vols[i], X[i], "log-volume = log of the reference volume")
              # posterior weights and final evidence
              lpw = st.log_posterior_weights
              logZ_f = st.finalise()
              _log_eq_plain(ctx, logZ_f, trap, "O2 finalise() = trapezoid with closing point at X=0")
              ctx.prove(len(lpw) == M, "one posterior weight per dead point")
              zero_evidence = False
              if True:
                  for i in range(M):
                      w_ref = L[i] * (X[i] - X[i + 1]) / trap
                      if mut == "weights" and i == 0:
                          w_ref = L[i] * X[i] / trap
                      _log_eq_plain(ctx, lpw[i], w_ref, "O3 posterior weight = L_i (X_{i-1}-X_i) / Z")
              # one-pass computation from stored samples
              from nessai.posterior import compute_weights
              samples = np.array(Ls, dtype=object if ctx.mode == "sym" else float)
              nl = np.array(ns, dtype=object if ctx.mode == "sym" else float)
              logZ_c, lpw_c = compute_weights(samples, nl, expectation=mode)
              ctx.prove_eq(logZ_c, logZ_f, "O3 compute_weights evidence = state evidence")
              if not zero_evidence:
                  ctx.prove(_conj([lpw_c[i] == lpw[i] for i in range(M)]) if ctx.mode == "sym" else all(
                      ctx.prove_eq(lpw_c[i], lpw[i], "O3 compute_weights weights = state weights") for i in range(M)),
                      "O3 compute_weights weights = state weights")
              # O7: numerical safety as path obligations
              ctx.prove(not ctx.domain_hits, "O7 no log of a negative number / -(-inf) on any path")
              if True:
                  ctx.prove(_conj([a <= 0 for a in exp_args if not isinstance(a, (int, float)) or not math.isnan(a)]),
                            "O7 every argument handed to exp is <= 0 (exp cannot overflow)")
                  ctx.prove(len(local_args) > 0 and _conj([a >= -1 for a in local_args if not (isinstance(a, float) and a == -math.inf)]),
                            "O7 the quadrature only exponentiates differences of consecutive log-volumes (>= -1): no underflow however long the run")
              ctx.cover("end")
        finally:
            _symnp.HOOKS.pop("exp", None)
    return body


def make_shift(M, mode):
    def body(ctx):
        from nessai.evidence import _NSIntegralState
        Ls, ns = _inputs(ctx, M, "const")
        c = ctx.logval("c", positive=True)
        a = _NSIntegralState(ns[0], track_gradients=False, expectation=mode)
        b = _NSIntegralState(ns[0], track_gradients=False, expectation=mode)
        for i in range(M):
            a.increment(Ls[i])
            b.increment(Ls[i] + c)
            ctx.prove_eq(b.logZ, a.logZ + c, "O5 shift: running logZ moves by the constant")
        wa, wb = a.log_posterior_weights, b.log_posterior_weights
        ctx.prove_eq(b.finalise(), a.finalise() + c, "O5 shift: final logZ moves by the constant")
        for i in range(M):
            ctx.prove_eq(wb[i], wa[i], "O5 shift: posterior weights unchanged")
        ctx.cover("end")
    return body


def make_int_schedule(M, k, mode):
    """compute_weights with an integer nlive builds the schedule [k]*(M-k) + [k..1]."""
    def body(ctx):
        from nessai.posterior import compute_weights
        Ls = [ctx.logval(f"L{i}", positive=True) for i in range(M)]
        for i in range(M - 1):
            ctx.assume(Ls[i] <= Ls[i + 1])
        seen = []

        class _Stop(Exception):
            pass

        def grab(x):
            seen.append(x)
            raise _Stop()   # the schedule has been observed; the quadrature itself is decided by the state units
        if ctx.mode == "sym":
            _symnp.HOOKS["cumsum"] = grab
        try:
            samples = np.array(Ls, dtype=object if ctx.mode == "sym" else float)
            try:
                logZ, lw = compute_weights(samples, k, expectation=mode)
            except _Stop:
                pass
        finally:
            _symnp.HOOKS.pop("cumsum", None)
        sched = [float(k)] * (M - k) + [float(j) for j in range(k, 0, -1)]
        if getattr(ctx, "mutant", None) == "sched":
            sched[-1] = 2.0
        observed = ctx.mode == "sym" and len(seen) == 1 and len(seen[0]) == M
        if observed:
            # the shrinkage terms were observed as the argument of np.cumsum (cheap: the quadrature is not re-decided here)
            snp = _snp(ctx)
            for i in range(M):
                from sx.values import Sym, rv
                ref = (Sym(rv(-1)) / Sym(rv(sched[i]))) if mode == "logt" else -snp.log1p(Sym(rv(1)) / Sym(rv(sched[i])))
                ctx.prove_eq(seen[0][i], ref, "O6 integer nlive: per-iteration live counts are [n]*(M-n) + [n, n-1, ..., 1]")
        elif ctx.mode == "sym":
            # an implementation that does not go through np.cumsum: compare the outputs of the integer path and of the array path
            logZ, lw = compute_weights(samples, k, expectation=mode)
        # the array path with the same schedule gives the same numbers (exact identity by O3)
        if not observed:
            logZ2, lw2 = compute_weights(samples, np.array(sched), expectation=mode)
            ctx.prove_eq(logZ, logZ2, "O6 integer path = array path (evidence)")
            for i in range(M):
                ctx.prove_eq(lw[i], lw2[i], "O6 integer path = array path (weights)")
        ctx.cover("end")
    return body


def make_int_array_schedule(sched, mode):
    """compute_weights with an integer-typed array of live counts (e.g. np.array(state.nlive))."""
    def body(ctx):
        from nessai.posterior import compute_weights
        M = len(sched)
        Ls = [ctx.logval(f"L{i}", positive=True) for i in range(M)]
        for i in range(M - 1):
            ctx.assume(Ls[i] <= Ls[i + 1])
        seen = []
        real_cumsum = np.cumsum
        if ctx.mode == "sym":
            _symnp.HOOKS["cumsum"] = seen.append
        else:
            import nessai.posterior as P

            class NP:
                def __getattr__(self, name):
                    return getattr(np, name)

                def cumsum(self, x, *a, **k):
                    seen.append(np.array(x, dtype=float))
                    return real_cumsum(x, *a, **k)
            old = P.np
            P.np = NP()
        try:
            samples = np.array(Ls, dtype=object if ctx.mode == "sym" else float)
            compute_weights(samples, np.array(sched, dtype=np.int64), expectation=mode)
        finally:
            _symnp.HOOKS.pop("cumsum", None)
            if ctx.mode != "sym":
                P.np = old
        ctx.prove(len(seen) == 1 and len(seen[0]) == M, "cumsum called once on M shrinkage terms")
        for i in range(M):
            ref = -1.0 / sched[i] if mode == "logt" else -math.log1p(1.0 / sched[i])
            got = seen[0][i]
            got = float(got) if not hasattr(got, "p") else got
            ok = (abs(got - ref) <= 1e-12) if isinstance(got, float) else None
            if ok is None:
                ctx.prove_eq(got, ref, "integer-typed live counts give the shrinkage -1/n_i resp. -log(1+1/n_i)")
            else:
                ctx.prove(ok, "integer-typed live counts give the shrinkage -1/n_i resp. -log(1+1/n_i)")
        ctx.cover("end")
    return body


def make_live_logx(N, mode):
    def body(ctx):
        from nessai.evidence import _NSIntegralState
        snp = _snp(ctx)
        n = ctx.real("n", lo=1, hi=None if ctx.mode == "sym" else 50)
        st = _NSIntegralState(n, track_gradients=False, expectation=mode)
        L = ctx.logval("L0")
        st.increment(L)
        lx = st.get_logx_live_points(N)
        ctx.prove(len(lx) == N, "one volume per live point")
        acc = st.logw
        for i in range(N):
            m = float(N - i)
            if ctx.mode == "sym":
                from sx.values import Sym, rv
                m = Sym(rv(N - i))
            acc = acc + ((-1.0 / m) if mode == "logt" else -snp.log1p(1.0 / m))
            ctx.prove_eq(lx[i], acc, "live-point volumes continue the shrinkage with counts N, N-1, ..., 1")
        ctx.cover("end")
    return body


def units(tier):
    us = []
    if tier == "quick":
        Ms = Ms_varying = [1, 2, 3, 4, 5]
        shiftM = [3]
        ints = [(3, 1), (4, 2), (5, 4), (3, 3)]
    else:
        Ms = [1, 2, 3, 4, 6, 8, 10]
        Ms_varying = [1, 2, 3, 4, 6]     # per-iteration symbolic live counts: M = 8, 10 do not finish reliably within the budget under load
        shiftM = [3, 6]
        ints = [(3, 1), (4, 2), (5, 4), (3, 3), (8, 6), (7, 5), (6, 6)]
    opts = dict(exp_axioms="signs", timeout_ms=60000, fresh=True)
    for mode in ("logt", "t"):
        for sched in ("const", "varying"):
            for M in (Ms if sched == "const" else Ms_varying):
                for z in range(0, min(M, 3)):
                    us.append(Unit(f"state[M={M},{sched},{mode},z={z}]", make_state(M, sched, mode, z), MODS, opts, expect_cover=["end"],
                                   mutants=["rect", "weights"] if (M, z) == (3, 0) else [], twin_runs=8, witness_every=1 if tier == "quick" else 16, time_budget_s=900 if tier == "quick" else 3000))
        for M in shiftM:
            us.append(Unit(f"shift[M={M},{mode}]", make_shift(M, mode), MODS, opts, expect_cover=["end"], twin_runs=20, witness_every=4))
        for (M, k) in ints:
            us.append(Unit(f"int_schedule[M={M},k={k},{mode}]", make_int_schedule(M, k, mode), MODS, opts, expect_cover=["end"],
                           mutants=["sched"] if (M, k) == (4, 2) else [], twin_runs=10))
        for sched in ([3, 3, 2, 1], [5, 4], [2]):
            us.append(Unit(f"int_array_schedule[{sched},{mode}]", make_int_array_schedule(sched, mode), MODS, opts, expect_cover=["end"], twin_runs=3))
        for N in (1, 3):
            us.append(Unit(f"live_logx[N={N},{mode}]", make_live_logx(N, mode), MODS, opts, expect_cover=["end"], twin_runs=10, witness_every=1))
    return us


def pre(run, tier):
    from sx import fplemmas
    run._fp = fplemmas.start(timeout_s=400)


def post(run, tier):
    from sx import fplemmas
    res = fplemmas.collect(run._fp)
    run.extra = dict(fp_lemmas=res)
    for r in res:
        if r["verdict"] == "unsat":
            continue
        if r["verdict"] == "sat" and r.get("reproduced"):
            run.violation_lines.append((f"VIOLATION property=C02 replay=fplemma:{r['lemma']}:{r['model']}", r["doc"]))
        else:
            run.inconclusive.append(f"FP lemma {r['lemma']}: {r['verdict']}")
    return "Bit-precise binary64 lemmas: " + "; ".join(f"{r['lemma']} {r['verdict']} in {r['seconds']}s ({r['doc']})" for r in res)
