"""C03 - every INS sample carries the exact meta-proposal density and weight.

The flow model is a family of uninterpreted density functions q_j(x'); the
user model is an uninterpreted likelihood of the mapped point.  The real
`ImportanceFlowProposal.draw / compute_log_Q / update_log_q /
compute_meta_proposal_* / rescale / inverse_rescale`, the real
`ImportanceNestedSampler.add_new_proposal_weight / add_and_update_points /
draw_n_samples / populate_live_points` and the real `OrderedSamples` are
executed; the invariant of the statement is the post-condition of one
iteration from an arbitrary store satisfying it (inductive step).
"""
import contextlib
import datetime
import math

import numpy as np

from sx import symnp as _symnp
from sx.logic import AND
from sx.runner import Unit

ID = "C03"
FUNCTIONS = [
    "nessai.proposal.importance.ImportanceFlowProposal.draw",
    "nessai.proposal.importance.ImportanceFlowProposal.compute_log_Q",
    "nessai.proposal.importance.ImportanceFlowProposal.update_log_q",
    "nessai.proposal.importance.ImportanceFlowProposal.compute_meta_proposal_from_log_q",
    "nessai.proposal.importance.ImportanceFlowProposal.compute_meta_proposal_samples",
    "nessai.proposal.importance.ImportanceFlowProposal.rescale",
    "nessai.proposal.importance.ImportanceFlowProposal.inverse_rescale",
    "nessai.proposal.importance.ImportanceFlowProposal.to_prime",
    "nessai.proposal.importance.ImportanceFlowProposal.from_prime",
    "nessai.proposal.importance.ImportanceFlowProposal.update_proposal_weights",
    "nessai.proposal.importance.ImportanceFlowProposal.get_proposal_log_prob",
    "nessai.samplers.importancesampler.ImportanceNestedSampler.add_new_proposal_weight",
    "nessai.samplers.importancesampler.ImportanceNestedSampler.add_and_update_points",
    "nessai.samplers.importancesampler.ImportanceNestedSampler.draw_n_samples",
    "nessai.samplers.importancesampler.ImportanceNestedSampler.populate_live_points",
    "nessai.samplers.importancesampler.OrderedSamples.add_samples",
    "nessai.samplers.importancesampler.OrderedSamples.add_initial_samples",
    "nessai.utils.rescaling.logit",
    "nessai.utils.rescaling.sigmoid",
]
BOUNDS = {
    "quick": dict(draw_batches="<=2 per request (a rejected batch is redrawn once)", dimensions=1, store="1..2 samples", existing_flows="0..1", batch="1 new sample per store", reparameterisation=["none", "logit (regular region eps <= x <= 1-eps): draw with 1..2 flows and one iteration from a one-sample store without the independent set"], independent_set=[False, True]),
    "thorough": dict(draw_batches="<=2 per request", dimensions="1..2", store="1..3 samples (1..2 with the independent set)", existing_flows="0..2", batch="1..2", reparameterisation=["none", "logit (regular region eps <= x <= 1-eps)"], independent_set=[False, True]),
}
SCOPE = ("Densities q_j are uninterpreted functions of the prime-space point, so 'the stored density equals the proposal re-evaluated at the sample' is decided as alignment of rows, columns and Jacobian terms for every density.")
ASSUMPTIONS = [
    "the flow model returns, for sample_ith, arbitrary points and, for log_prob_ith / log_prob_all, a fixed function of the point (uninterpreted q_j)",
    "the user model's likelihood and prior are functions of the unit-hypercube point (uninterpreted); its unit-hypercube prior is an uninterpreted finite function of the point inside the cube (log_prior_unit_hypercube may be overridden), -inf outside",
    "mixture weights are compared as the same floating-point quotients count/total that the code forms",
    "logit reparameterisation: decided on the regular region eps <= x <= 1-eps (inside the clip the stored density of a drawn sample differs from the re-evaluated one: known finding F-C03-eps-clip, reported separately)",
    "leakage / entropy diagnostics and plotting are stubs",
]
OUTSIDE = ["logit reparameterisation with the independent sample set or more than one stored sample per iteration (solver inconclusive within 15 minutes with the full exponential axioms)", "the densities themselves (torch flows)", "float32 agreement after resume", "stores and batches larger than the bound"]

PARALLEL_UNITS = True
MODS = ["nessai.proposal.importance", "nessai.samplers.importancesampler", "nessai.utils.rescaling", "nessai.utils.structures", "nessai.livepoint", "nessai.utils.stats"]
NAMES = ["x", "y"]


@contextlib.contextmanager
def setup(symbolic):
    from nessai import config
    from nessai.livepoint import add_extra_parameters_to_live_points, reset_extra_live_points_parameters
    lp = config.livepoints
    old = (lp.default_float_dtype, lp.logl_dtype)
    reset_extra_live_points_parameters()
    if symbolic:
        lp.default_float_dtype = "O"
        lp.logl_dtype = "O"
        lp.reset_properties()
    add_extra_parameters_to_live_points(["logW", "logQ", "logU"])
    try:
        yield
    finally:
        reset_extra_live_points_parameters()
        lp.default_float_dtype, lp.logl_dtype = old
        lp.reset_properties()


def _snp(ctx):
    return _symnp.symnp if ctx.mode == "sym" else np


class Flow:
    """Uninterpreted flow model: densities q_j(x') and arbitrary samples."""

    def __init__(self, ctx, n_models, d, eps_region=None):
        self.ctx, self.n_models, self.d = ctx, n_models, d
        self.models = [type("M", (), {"training": False})() for _ in range(n_models)]
        self.sampled = []
        self.eps_region = eps_region
        self.max_batches = 2

    def q(self, j, row):
        return self.ctx.uf(f"q{j}", *[row[k] for k in range(self.d)])

    def log_prob_ith(self, x, it):
        out = np.empty(len(x), dtype=object if self.ctx.mode == "sym" else float)
        for i in range(len(x)):
            out[i] = self.q(it, x[i])
        return out

    def log_prob_all(self, x):
        out = np.empty((len(x), self.n_models), dtype=object if self.ctx.mode == "sym" else float)
        for i in range(len(x)):
            for j in range(self.n_models):
                out[i, j] = self.q(j, x[i])
        return out

    def sample_ith(self, i, N):
        ctx = self.ctx
        if len(self.sampled) >= self.max_batches:
            from sx.engine import OutOfBound
            raise OutOfBound("more batches needed to fill the request than the bound")
        out = np.empty((N, self.d), dtype=object if ctx.mode == "sym" else float)
        for r in range(N):
            for k in range(self.d):
                v = ctx.real(ctx.fresh(f"draw{i}_"), -4, 4)
                out[r, k] = v
        self.sampled.append((i, out.copy()))
        return out


class ModelStub:
    def __init__(self, ctx, d):
        self.ctx = ctx
        self.names = NAMES[:d]
        self.dims = d
        self.ll_args = []
        self.likelihood_evaluations = 0
        self.prior_may_vanish = False
        self._lp_kind = {}

    def _rows(self, x):
        return [[x[n][i] for n in self.names] for i in range(len(x))]

    def in_unit_hypercube(self, x):
        out = np.empty(len(x), dtype=bool)
        for i, row in enumerate(self._rows(x)):
            out[i] = all(bool((v >= 0) & (v <= 1)) for v in row)
        return out

    def batch_evaluate_log_prior(self, x, unit_hypercube=False):
        out = np.empty(len(x), dtype=object if self.ctx.mode == "sym" else float)
        for i, row in enumerate(self._rows(x)):
            finite = True
            if self.prior_may_vanish:
                key = tuple(v.p.get_id() if hasattr(v, "p") else float(v) for v in row)
                if key not in self._lp_kind:
                    self._lp_kind[key] = (self.ctx.choice("prior_finite", 2) == 0, row)
                finite = self._lp_kind[key][0]
            out[i] = self.ctx.uf("LP", *row) if finite else -math.inf
        return out

    def batch_evaluate_log_prior_unit_hypercube(self, x):
        out = np.empty(len(x), dtype=object if self.ctx.mode == "sym" else float)
        for i, row in enumerate(self._rows(x)):
            inside = all(bool((v >= 0) & (v < 1)) for v in row)
            # Model.log_prior_unit_hypercube may be overridden by the user: any finite value inside the cube, a function of the point
            out[i] = self.ctx.uf("LU", *row) if inside else -math.inf
        return out

    def batch_evaluate_log_likelihood(self, x, unit_hypercube=False):
        out = np.empty(len(x), dtype=object if self.ctx.mode == "sym" else float)
        for i, row in enumerate(self._rows(x)):
            self.ll_args.append(row)
            out[i] = self.ctx.uf("LL", *row)
        self.likelihood_evaluations += len(x)
        return out

    def sample_unit_hypercube(self, n):
        from nessai.livepoint import empty_structured_array
        a = empty_structured_array(n, names=self.names)
        for i in range(n):
            for nm in self.names:
                v = self.ctx.real(self.ctx.fresh("prior_draw"), 0, 1)
                self.ctx.assume(v < 1)
                a[nm][i] = v
        return a

    def from_unit_hypercube(self, x):
        return x


def _proposal(ctx, d, n_flows, reparam, weights):
    from nessai.proposal.importance import ImportanceFlowProposal
    from nessai.livepoint import get_dtype
    p = ImportanceFlowProposal.__new__(ImportanceFlowProposal)
    p.model = ModelStub(ctx, d)
    p.reparameterisation = reparam
    p.clip = False
    p.flow = Flow(ctx, n_flows, d)
    p.level_count = n_flows - 1
    p._weights = dict(weights)
    p.dtype = get_dtype(p.model.names)
    return p


def _Q(ctx, p, xrow, j):
    """Q_j(x): density of proposal j (index 0 = the prior, then the flows) at the unit-cube point x."""
    snp = _snp(ctx)
    if j == 0:
        return 0.0
    if p.reparameterisation == "logit":
        xp, lj = [], 0.0
        for v in xrow:
            xp.append(snp.log(v) - snp.log1p(-v))
            lj = lj + (-snp.log(v) - snp.log1p(-v))
        return p.flow.q(j - 1, xp) + lj
    return p.flow.q(j - 1, list(xrow))


def _check_rows(ctx, p, samples, log_q, weights, label, mut=None, density_only=False):
    """The invariant of the statement on a set of samples with their density table."""
    snp = _snp(ctx)
    names = p.model.names
    P = len(weights)
    ctx.prove(log_q.shape == (len(samples), P), label + ": density table has one row per sample and one column per proposal")
    if log_q.shape != (len(samples), P):
        return
    for i in range(len(samples)):
        row = [samples[n][i] for n in names]
        tot = None
        for j in range(P):
            Qj = _Q(ctx, p, row, j if mut != "column" or P < 2 else (P - 1 - j))
            ctx.prove_eq(log_q[i, j], Qj, label + ": stored per-proposal density = proposal re-evaluated at the sample")
            term = weights[j] * snp.exp(Qj)
            tot = term if tot is None else tot + term
        ctx.prove_eq(samples["logQ"][i], snp.log(tot), label + ": stored meta-proposal density = log of the weighted mixture")
        if density_only:
            continue
        ctx.prove_eq(samples["logW"][i], samples["logU"][i] - samples["logQ"][i], label + ": stored log-weight = unit-cube log-prior - meta-proposal density")
        ctx.prove(AND(*[(v >= 0) & (v <= 1) for v in row]), label + ": sample lies in the unit hypercube")


def _eps_ok(ctx, p, v):
    """Regular region of the logit map (outside the eps clip)."""
    from nessai import config
    eps = config.general.eps
    return (v >= eps) & (v <= 1 - eps)


def make_draw(d, n_flows, reparam, n, vanishing_prior=False, density_only=False):
    def body(ctx):
        mut = getattr(ctx, "mutant", None)
        P = n_flows + 1
        counts = [2] + [1] * n_flows
        total = sum(counts)
        w = [c / total for c in counts]
        p = _proposal(ctx, d, n_flows, reparam, {j - 1: w[j] for j in range(P)})
        p.model.prior_may_vanish = vanishing_prior     # e.g. a constraint inside the unit hypercube
        samples, log_q = p.draw(n)
        for i in range(len(samples)):
            lp = samples["logP"][i]
            ctx.prove(not (isinstance(lp, float) and lp == -math.inf), "every returned sample has a finite model prior")
        ctx.prove(len(samples) == n, "draw returns exactly the requested number of samples")
        if reparam == "logit":
            for nm in p.model.names:
                for i in range(len(samples)):
                    ctx.assume(_eps_ok(ctx, p, samples[nm][i]))
        _check_rows(ctx, p, samples, log_q, w, "draw", mut, density_only=density_only)
        if density_only:
            # the same points passed forwards through the proposal: density computed = density attached at generation
            logQ2, log_q2 = p.compute_meta_proposal_samples(samples)
            for i in range(len(samples)):
                for j in range(P):
                    ctx.prove_eq(log_q2[i, j], log_q[i, j], "density computed for a generated point passed forwards = density attached at generation")
                ctx.prove_eq(logQ2[i], samples["logQ"][i], "meta-proposal density computed forwards = the one attached at generation")
            ctx.cover("end")
            return
        ctx.prove(abs(sum(p.weights_array) - 1.0) < 1e-12, "mixture weights sum to one")
        ctx.cover("end")
    return body


def make_eps_clip():
    """A sample drawn inside the eps clip of the logit map: stored density vs the proposal re-evaluated at the sample."""
    def body(ctx):
        w = [0.5, 0.5]
        p = _proposal(ctx, 1, 1, "logit", {-1: 0.5, 0: 0.5})
        xp = ctx.real("x_prime_drawn", -40, -19)     # sigmoid(x') < 1e-8 = eps

        def sample_ith(i, N):
            out = np.empty((N, 1), dtype=object if ctx.mode == "sym" else float)
            out[:, 0] = xp
            return out
        p.flow.sample_ith = sample_ith
        samples, log_q = p.draw(1)
        ctx.prove(len(samples) == 1, "the sample is accepted")
        logQ2, log_q2 = p.compute_meta_proposal_samples(samples)
        ctx.prove_eq(log_q[0, 1], log_q2[0, 1], "eps-clip: stored per-proposal density = proposal re-evaluated at the stored sample")
        ctx.cover("end")
    return body


def _store(ctx, OrderedSamples, p, m, P_old, prefix, weights_old):
    from nessai.livepoint import empty_structured_array
    names = p.model.names
    s = empty_structured_array(m, names=names)
    Ls = []
    for i in range(m):
        for nm in names:
            v = ctx.real(f"{prefix}{nm}{i}", 0, 1)
            ctx.assume(v < 1)
            if p.reparameterisation == "logit":
                ctx.assume(_eps_ok(ctx, p, v))
            s[nm][i] = v
    log_q = np.empty((m, P_old), dtype=object if ctx.mode == "sym" else float)
    for i in range(m):
        row = [s[nm][i] for nm in names]
        s["logL"][i] = ctx.uf("LL", *row)
        s["logP"][i] = ctx.uf("LP", *row)
        s["logU"][i] = ctx.uf("LU", *row)
        s["it"][i] = -1 if i % 2 == 0 or P_old == 1 else 0
        for j in range(P_old):
            log_q[i, j] = _Q(ctx, p, row, j)
        s["logQ"][i] = 0.0
        s["logW"][i] = 0.0
    os_ = OrderedSamples(strict_threshold=False, replace_all=False)
    # sorted by likelihood: order decided by the solver
    os_.add_initial_samples(s, log_q)
    return os_


def make_iteration(d, m, n_flows_old, reparam, iid, n_add=1):
    """One iteration of the importance sampler's bookkeeping from an arbitrary store satisfying the invariant."""
    def body(ctx):
        from nessai.samplers.importancesampler import ImportanceNestedSampler, OrderedSamples
        import nessai.samplers.importancesampler as ins_mod
        mut = getattr(ctx, "mutant", None)
        P_old = n_flows_old + 1
        n_flows = n_flows_old + 1          # the proposal that was just trained
        P = n_flows + 1
        # counts of samples per existing proposal in the store (consistent with the `it` tags set in _store)
        counts_old = [m] if P_old == 1 else [(m + 1) // 2, m // 2]
        p = _proposal(ctx, d, n_flows, reparam, {j - 1: counts_old[j] / m for j in range(P_old)})
        ins = ImportanceNestedSampler.__new__(ImportanceNestedSampler)
        ins.model = p.model
        ins.proposal = p
        ins.iteration = n_flows - 1
        ins.training_samples = _store(ctx, OrderedSamples, p, m, P_old, "t", None)
        ins.draw_iid_live = iid
        ins.iid_samples = _store(ctx, OrderedSamples, p, m, P_old, "i", None) if iid else None
        ins.sample_counts = {j - 1: counts_old[j] for j in range(P_old)}
        ins.history = dict(leakage_new_points=[], n_added=[], n_live=[], leakage_live_points=[])
        ins.plot = False
        ins.plot_pool = False
        ins.log_likelihood_threshold = ctx.real("T")
        ins.draw_samples_time = ins.add_and_update_samples_time = datetime.timedelta()
        ins.compute_leakage = lambda samples, weights=True: 0.0
        old_de = ins_mod.differential_entropy
        old_ess = ins_mod.effective_sample_size
        ins_mod.differential_entropy = lambda x: 0.0
        ins_mod.effective_sample_size = lambda x: 1.0
        try:
            ins.add_new_proposal_weight(ins.iteration, n_add)
            ins.add_and_update_points(n_add)
        finally:
            ins_mod.differential_entropy = old_de
            ins_mod.effective_sample_size = old_ess
        total = m + n_add
        counts = counts_old + [n_add]
        w = [c / total for c in counts]
        ctx.prove([p.weights[j - 1] for j in range(P)] == w, "mixture weights are the fraction of samples drawn from each proposal")
        ctx.prove(abs(sum(w) - 1.0) < 1e-12, "mixture weights sum to one")
        for name, st in (("training set", ins.training_samples),) + ((("independent set", ins.iid_samples),) if iid else ()):
            s = st.samples
            ctx.prove(len(s) == total, name + ": the new samples were added")
            if reparam == "logit":
                for nm in p.model.names:
                    for i in range(len(s)):
                        ctx.assume(_eps_ok(ctx, p, s[nm][i]))
            _check_rows(ctx, p, s, st.log_q, w, name, mut)
            for i in range(len(s)):
                row = [s[nm][i] for nm in p.model.names]
                ctx.prove_eq(s["logL"][i], ctx.uf("LL", *row), name + ": stored log-likelihood = model at the sample's point")
            ctx.prove(AND(*[s["logL"][i] <= s["logL"][i + 1] for i in range(len(s) - 1)]), name + ": sorted by likelihood")
            new = [i for i in range(len(s)) if int(s["it"][i]) == ins.iteration]
            ctx.prove(len(new) == n_add, name + ": new samples are stamped with the iteration")
            labels = [sum(1 for i in range(len(s)) if int(s["it"][i]) == j - 1) for j in range(P)]
            ctx.prove(labels == counts, name + ": the number of stored samples labelled with each proposal = the count its mixture weight is built from")
        for row in p.model.ll_args:
            ctx.prove(AND(*[(v >= 0) & (v <= 1) for v in row]), "the likelihood is only evaluated inside the unit hypercube")
        ctx.cover("end")
    return body


def make_populate(d, n_init, iid):
    def body(ctx):
        from nessai.samplers.importancesampler import ImportanceNestedSampler, OrderedSamples
        p = _proposal(ctx, d, 0, None, {-1: 1.0})
        ins = ImportanceNestedSampler.__new__(ImportanceNestedSampler)
        ins.model = p.model
        ins.proposal = p
        ins.n_initial = n_init
        ins.draw_iid_live = iid
        ins.training_samples = OrderedSamples()
        ins.iid_samples = OrderedSamples() if iid else None
        ins.sample_counts = {}
        # the model prior is finite for every draw here (rejection of non-finite priors is C09's subject)
        ins.populate_live_points()
        for name, st in (("training set", ins.training_samples),) + ((("independent set", ins.iid_samples),) if iid else ()):
            ctx.prove(len(st.samples) == n_init, name + ": initial size")
            _check_rows(ctx, p, st.samples, st.log_q, [1.0], name + " (initial)")
            for i in range(n_init):
                row = [st.samples[nm][i] for nm in p.model.names]
                ctx.prove_eq(st.samples["logL"][i], ctx.uf("LL", *row), name + ": stored log-likelihood = model at the sample's point")
                ctx.prove(int(st.samples["it"][i]) == -1, name + ": initial samples belong to proposal -1 (the prior)")
        ctx.prove(ins.sample_counts == {-1: n_init}, "initial sample count recorded")
        ctx.cover("end")
    return body


def units(tier):
    us = []
    q = tier == "quick"
    nl0 = dict(exp_axioms="signs", fresh=True, timeout_ms=60000)
    for reparam in (None, "logit"):
        nl = nl0 if reparam is None else dict(nl0, exp_axioms="full")
        for n_flows in ((1, 2) if q else (1, 2, 3)):
            us.append(Unit(f"draw[d=1,flows={n_flows},{reparam},n=1]", make_draw(1, n_flows, reparam, 1), MODS, nl, expect_cover=["end"],
                           mutants=["column"] if (n_flows, reparam) == (2, None) else [], twin_runs=10, witness_every=3, setup=setup, nproc=1, time_budget_s=600))
        for iid in (False, True):
            for (m, nf) in ([(1, 0), (2, 1)] if q else [(1, 0), (2, 1), (3, 1), (2, 0)]):
                if reparam == "logit" and (iid or (m, nf) != (1, 0)):
                    continue   # the full exp axioms make larger logit iterations inconclusive within 15 minutes: not claimed
                if iid and m >= 3:
                    continue   # > 35 000 paths: not exhausted within 15 minutes on 16 cores (214 subtrees left): not claimed
                big = iid and (m, nf) == (2, 1)   # ~10 minutes single-threaded: explored with engine-level parallelism
                us.append(Unit(f"iteration[m={m},flows_before={nf},{reparam},iid={iid}]", make_iteration(1, m, nf, reparam, iid), MODS, nl, expect_cover=["end"],
                               mutants=["column"] if (m, nf, reparam, iid) == (2, 1, None, False) else [], twin_runs=8, witness_every=5 if not big else 100, setup=setup,
                               nproc=None if big else 1, heavy=big, time_budget_s=900))
    us.append(Unit("draw[d=1,flows=1,None,n=2,vanishing_prior]", make_draw(1, 1, None, 2, vanishing_prior=True), MODS, nl0, expect_cover=["end"], twin_runs=10, witness_every=10,
                   setup=setup, nproc=1, time_budget_s=900))
    us.append(Unit("draw_inside_eps_clip[logit]", make_eps_clip(), MODS, dict(nl0, exp_axioms="full"), expect_cover=["end"], twin_runs=5, witness_every=1, setup=setup, nproc=1))
    nl = nl0
    for iid in (False, True):
        us.append(Unit(f"populate[n=2,iid={iid}]", make_populate(1, 2, iid), MODS, nl, expect_cover=["end"], twin_runs=8, witness_every=3, setup=setup, nproc=1))
    if not q:
        us.append(Unit("draw[d=2,flows=1,None,n=2]", make_draw(2, 1, None, 2), MODS, nl, expect_cover=["end"], twin_runs=5, witness_every=5, setup=setup, nproc=1, time_budget_s=900))
    return us
